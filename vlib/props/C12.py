"""C12 — remote parties cannot stall beacon storage or grow node state without bound.

(a) callbackStore: engine `cbstore` = the real callbackStore(appendStore(schemeStore(memdb))) with scripted consumers
    (fast / gated = a stream client that stopped reading), every Put / AddCallback / RemoveCallback under a 2 s watchdog.
(b) partial cache: engine `cache` = the real partialCache, sizes observed after every Append/Flush.
(c) node level: engine `flood` = a real beacon.Handler with real keys: ProcessPartialBeacon → aggregator → cache.
(d) catch-up scan on bolt: engine `stream` (C11) with an un-pre-grown bolt file and a client stopped in its first Send.
"""
import glob, json, os, re
from concurrent.futures import ThreadPoolExecutor
from .. import core

ID = "C12"
MODULE = "DrandProofs.C12R"   # imports DrandProofs.C12 (the store as it was, the cache) ; C12R = the repaired store
CB_THEOREMS = ["Drand.Chain.Callback." + t for t in [
    "c12_queue_bound", "c12_put_never_waits", "c12_put_completes_alone", "c12_put_nonblocking_partial", "c12_stall_counterexample",
    "stuck_blocks", "c12_stall_is_permanent", "c12_addcallback_stall_counterexample", "c12_worker_fifo",
    "tie_callback_put_shape", "tie_callback_queue_const",
    # the repaired store (stepR), every schedule
    "tie_callback_variant", "tie_code_is_known_variant", "rinv_step", "c12r_queue_bound", "c12r_lock_discipline",
    "c12r_put_never_waits", "c12r_put_completes_alone", "c12r_put_begins", "c12_addcallback_never_waits",
    "c11_dispatch_reaches_or_ends", "c11_never_dropped", "c11_closed_is_last", "c11_table_frozen_during_put"]]
CACHE_THEOREMS = ["Drand.Beacon." + t for t in [
    "c12_cache_inv", "c12_cache_bound", "c12_rounds_listed", "c12_no_wedge", "c12_append_takes", "c12_isolation", "c12_flush_exact",
    "append_duplicate", "tie_cache_append_variant"]]
THEOREMS = CB_THEOREMS + CACHE_THEOREMS
TRUSTED = ["Lean 4 kernel; axioms per theorem under coverage.axioms",
           "modelled, not verified: goroutines as explicit steps, a buffered channel as a bounded FIFO list, sync.RWMutex as 'writers wait for readers and vice versa' (Go's writer preference is not needed for any statement)",
           "go2lean facts: Gen.callbackWorkerQueue, Gen.maxPartialsPerNode, Gen.callbackPutDispatchBlocking (plain send vs select/default), callbackOverflowEndsConsumer (the default branch is exactly: stopWorker(id, true); delete(callbacks, id) — any other select/default is refused), callbackPutHoldsReadLock / HoldsWriteLock, callbackCloseOutOfBand (stopWorker + the worker's closed-channel branch), callbackPutBaseFirst, callbackAdd/RemoveLocked, callbackAddCloseSendBlocking, syncChainRegistersStream",
           "which ids are stream consumers is an input of the model (cfg.streamIds = the ids registered with AddStreamCallback); the engine registers them with that method where the tree has it",
           "harness engines 'cbstore', 'cache', 'flood' (real keys and threshold shares), 'stream'; a Put/AddCallback/RemoveCallback that has not returned after the watchdog (2 s) is reported as blocked",
           "gRPC flow control (a client that stops reading eventually blocks stream.Send) is assumed, not reproduced: the scripted consumer blocks in its callback directly"]
ASSUMPTIONS = ["a stream client that stops reading makes stream.Send block (HTTP/2 flow control)",
               "partials reach the cache only through ProcessPartialBeacon → runAggregator (window (head, head+4])"]

SIG_STALL = "callbackstore:put-blocks-on-full-queue"
SIG_ADD = "callbackstore:addcallback-close-signal-blocks-under-write-lock"
SIG_REMAP = "boltstore:put-waits-for-open-cursor-on-mmap-grow"
SIG_REPLAY = "partialcache:unchained-prev-replay-evicts-signer"
H = lambda: os.path.join(core.BUILD, "verifh")
D = lambda: os.path.join(core.LEAN, ".lake", "build", "bin", "vdriver")


def gen_facts():
    txt = open(os.path.join(core.LEAN, "Gen", "Consts.lean")).read() + open(os.path.join(core.LEAN, "Gen", "Callback.lean")).read()
    g = lambda n: re.search(r"def %s : \w+ := (\S+)" % n, txt).group(1)
    return {"cap": int(g("callbackWorkerQueue")), "maxp": int(g("maxPartialsPerNode")), "blocking": g("callbackPutDispatchBlocking") == "true",
            "add_blocking": g("callbackAddCloseSendBlocking") == "true", "ends": g("callbackOverflowEndsConsumer") == "true"}


# ------------------------------------------------------------------------------------------ (a) cbstore
def cb_scenarios(rng, tier, cap):
    S = []
    # the recorded witnesses of the two stalls first: on the code as it was they must stall (known findings), on a repaired
    # store they must give the recorded repaired answers
    for f in sorted(glob.glob(os.path.join(core.VERIF, "corpus", ID, "*.json"))):
        c = json.load(open(f))
        if c.get("engine") == "cbstore":
            S.append({"name": "corpus:" + os.path.basename(f), "ops": c["ops"], "expect": c.get("signature"), "repaired": c.get("repaired", {})})
    # the stall witness: one consumer whose callback never returns, cap+2 Puts, then RemoveCallback
    # (`adds` = registered by a stream handler: AddStreamCallback where the tree has it; `add` = a callback of the node itself)
    S.append({"name": "stall", "ops": ["init", "adds c gate", "add d fast"] + ["put"] * (cap + 2) +
              ["remove c", "last", "release c 1", "wait", "got d", "release c 500", "wait", "got c", "got d", "put", "got d"]})
    # the reconnect-under-write-lock witness
    S.append({"name": "stall-add", "ops": ["init", "adds c gate"] + ["put"] * (cap + 1) + ["adds c fast", "last", "release c 1", "wait", "put", "got c"]})
    # a stream consumer that stopped reading, far more beacons than its queue holds, then it reads again and its client
    # reconnects: every Put must return; the consumer gets a gap-free prefix and then `closed`, nothing after
    S.append({"name": "overflow-reconnect", "ops": ["init", "adds c gate", "adds e fast", "add d fast"] + ["put"] * (cap + 5) +
              ["release c 3", "wait", "got e", "got d", "got c", "release c 500", "wait", "got c", "adds c fast", "put", "put", "got c", "got d", "got e"]})
    # a callback of the node itself is never ended: with its queue full the Put waits for it (both trees), and goes on afterwards
    S.append({"name": "internal-full", "ops": ["init", "add i gate", "adds f fast"] + ["put"] * (cap + 2) +
              ["release i 5", "wait", "put", "release i 500", "wait", "got i", "got f"]})
    # a slow but live consumer never blocks anybody as long as it keeps up within the queue
    S.append({"name": "slow", "ops": ["init", "adds s gate", "add f fast"] +
              sum([["put"] * 60 + ["release s 60", "got f"] for _ in range(4)], []) + ["release s 10", "wait", "got s", "got f"]})
    # generated: several consumers, registrations and removals at any time, never more than `cap` outstanding per gated consumer
    n = 12 if tier == "quick" else 300
    for i in range(n):
        r = rng.fork(f"cb{i}")
        ops = ["init"]
        cons = {}
        outstanding = {}
        for _ in range(r.range(30, 120)):
            k = r.below(100)
            if k < 12 and len(cons) < 5:
                cid = "k%d" % r.below(6)
                if cid in cons and cons[cid] == "gate" and outstanding.get(cid, 0) > 0:
                    continue   # replacing a consumer that sits in its callback is the reconnect scenario above
                cons[cid] = r.choice(["fast", "gate"])
                outstanding[cid] = 0
                ops.append(f"{r.choice(['add', 'adds', 'adds'])} {cid} {cons[cid]}")
            elif k < 18 and cons:
                cid = r.choice(sorted(cons))
                ops.append(f"remove {cid}")
                del cons[cid]
            elif k < 70:
                if any(m == "gate" and outstanding[c] >= cap for c, m in cons.items()):
                    continue
                ops.append("put")
                for c, m in cons.items():
                    if m == "gate":
                        outstanding[c] += 1
            elif k < 85:
                g = [c for c, m in cons.items() if m == "gate" and outstanding[c] > 0]
                if g:
                    c = r.choice(g)
                    q = r.range(1, outstanding[c])
                    outstanding[c] -= q
                    ops.append(f"release {c} {q}")
            elif cons:
                ops.append(f"got {r.choice(sorted(cons))}")
        for c, m in cons.items():
            if m == "gate":
                ops.append(f"release {c} 1000")
        ops.append("wait")
        ops += [f"got {c}" for c in sorted(cons)]
        S.append({"name": "generated", "ops": ops})
    return S


def cb_oracle(ops, outs, cap):
    """C12(a) + the store side of C11 on the implementation's transcript: no Put / AddCallback / RemoveCallback ever waits for a
    stream consumer; every consumer gets exactly the rounds stored while it was registered, in order — or, and this is the ONLY
    alternative, a stream consumer whose queue was full when a beacon was dispatched gets a gap-free prefix up to that point, then
    `closed`, then nothing. A round missing in the middle (a silent skip) is a violation. Returns (violations, deviations)."""
    V, Dv = [], []
    reg = {}        # id -> {"mode", "stream", "first": first round it must see, "jobs": rounds handed over, "credits", "ended"}
    removed = {}
    head = 0
    blocked_put = False
    is_full = lambda k: k["mode"] == "gate" and not k.get("ended") and len(k["jobs"]) - k["credits"] >= cap + 1
    for op, out in zip(ops, outs):
        f = op.split()
        if out.startswith(("panic", "err", "unsettled")) or out == "bad-op":
            V.append(f"`{op}` answered {out}"); return V, Dv
        if f[0] == "init":
            reg, removed, head, blocked_put = {}, {}, 0, False
        elif f[0] == "put":
            if out == "bad-state":
                continue
            r = int(out.split()[1])
            if r != head + 1:
                V.append(f"put stored {r} after {head}"); return V, Dv
            head = r
            # a gated consumer that sits in a callback with CallbackWorkerQueue jobs queued behind it has a full queue
            full = [c for c, k in reg.items() if is_full(k)]
            full_stream = [c for c in full if reg[c]["stream"]]
            full_own = [c for c in full if not reg[c]["stream"]]
            if out.startswith("blocked"):
                blocked_put = True
                for c, k in reg.items():
                    if not k.get("ended"):
                        k["jobs"].append(r)
                if full_own:
                    pass    # the node waits for its own callback: not a remote party's doing (C12 speaks about stream consumers)
                elif full_stream:
                    Dv.append((SIG_STALL, f"Put of round {r} did not return within the watchdog: stream consumer {full_stream[0]} has not returned from its callback and {cap} jobs are queued behind it"))
                else:
                    V.append(f"Put of round {r} blocked although no consumer has a full queue"); return V, Dv
            else:
                if full_own:
                    V.append(f"Put of round {r} returned although the queue of {full_own[0]} (a callback of the node itself) was full: the beacon cannot have reached it"); return V, Dv
                for c, k in reg.items():
                    if k.get("ended"):
                        continue
                    if c in full_stream:
                        k["ended"] = r       # the store did not wait: the one thing it may do instead is end this consumer
                    else:
                        k["jobs"].append(r)
        elif f[0] in ("add", "adds"):
            new = {"mode": f[2], "stream": f[0] == "adds", "first": head + 1, "jobs": [], "credits": 0}
            if out == "blocked":
                k = reg.get(f[1])
                if blocked_put:
                    if not any(is_full(x) and not x["stream"] for x in reg.values()):
                        Dv.append((SIG_STALL, "AddCallback waits for the write lock behind the blocked Put"))
                elif k and k["stream"] and is_full(k):
                    Dv.append((SIG_ADD, f"AddCallback({f[1]}) blocks while holding the write lock: the close signal cannot enter the full queue of the consumer it replaces"))
                else:
                    V.append(f"`{op}` blocked without a listed circumstance"); return V, Dv
                reg[f[1]] = dict(new, first=None, pending=True)
            elif out == "ok":
                reg[f[1]] = new
        elif f[0] == "remove":
            if out == "blocked":
                if blocked_put:
                    if not any(is_full(x) and not x["stream"] for x in reg.values()):
                        Dv.append((SIG_STALL, f"RemoveCallback({f[1]}) cannot take the write lock while the blocked Put holds the read lock"))
                else:
                    V.append(f"`{op}` blocked without a listed circumstance"); return V, Dv
            if f[1] in reg:
                removed[f[1]] = dict(reg.pop(f[1]), last=head)
        elif f[0] == "release":
            k = reg.get(f[1]) or removed.get(f[1])
            if k:
                k["credits"] += int(f[2])
        elif f[0] == "wait":
            if out != "done":
                V.append(f"still blocked after every consumer was released: {out}"); return V, Dv
            blocked_put = False
            for c, k in reg.items():
                if k.get("pending"):
                    k["first"] = head + 1
                    k.pop("pending")
        elif f[0] == "got":
            k = reg.get(f[1]) or removed.get(f[1])
            if k is None or out == "bad-state" or k.get("pending"):
                continue
            got = [] if out == "-" else out.split(",")
            if k["first"] is None:
                continue
            last = k.get("last", head)
            seq = [str(x) for x in k["jobs"]]
            if k.get("ended"):
                seq.append("closed")        # an ended consumer hears `closed` after everything that was queued for it
            else:
                got = [x for x in got if x != "closed"]     # the close signal of a replacement is C11's stream engine's business
            entered = len(seq) if k["mode"] == "fast" else min(len(seq), k["credits"] + 1)
            want = seq[:entered]
            if blocked_put:
                # the blocked Put has reached some consumers and not others
                ok = got == want or got == want[:-1] or got[:-1] == want
            else:
                ok = got == want
            if not ok:
                what = "a silent skip or a repeat" if [x for x in got if x != "closed"] != want[:len([x for x in got if x != "closed"])] else "too few or too many deliveries"
                V.append(f"consumer {f[1]} ({'stream' if k['stream'] else 'own'}, {k['mode']}, registered before round {k['first']}, {k['credits']} callbacks released, store at {last}"
                         f"{', ended by the store at round %d' % k['ended'] if k.get('ended') else ''}) got {got[:4]}..{got[-3:]} ({len(got)}), expected exactly {want[:1]}..{want[-2:]} ({len(want)}): {what}"); return V, Dv
        elif f[0] == "qlen":
            if out.isdigit() and int(out) > cap:
                V.append(f"queue of {f[1]} holds {out} > {cap} jobs"); return V, Dv
    return V, Dv


# ------------------------------------------------------------------------------------------ (b) cache
def psig(idx, body="ab"):
    return f"{idx:04x}" + body * 96


def cache_scenarios(rng, tier, maxp):
    S = []
    # pre-fix witnesses (both repaired in /repo; they run first on every check)
    for f in sorted(glob.glob(os.path.join(core.VERIF, "corpus", ID, "*.json"))):
        c = json.load(open(f))
        if c.get("engine") == "cache":
            S.append({"name": "corpus:" + os.path.basename(f), "ops": c["ops"], "signers": c.get("signers", 2)})
    mk = lambda ops: sum([[o, "sizes"] for o in ops], [])
    # one signer × many rounds, × many previous signatures, replays, then honest traffic from the others
    S.append({"name": "many-rounds", "signers": 3, "ops": mk([f"append {r} aa {psig(1)}" for r in range(1, 3 * maxp)]) +
              mk([f"append {3 * maxp - 1} aa {psig(2)}", f"append {3 * maxp - 1} aa {psig(0)}"]) + [f"len {3 * maxp - 1} aa", "dump"]})
    S.append({"name": "many-prevs", "signers": 3, "ops": mk([f"append 7 - {psig(2)}", f"append 7 - {psig(1)}"]) +
              mk([f"append 7 {k:04x} {psig(1)}" for k in range(1, 2 * maxp + 5)]) + ["len 7 -", "dump", "flush 7", "sizes", "dump"]})
    # out-of-order arrival: a signer's partials for round r+1 (distinct previous signatures) are recorded BEFORE its partial
    # for round r, round r is stored (flush r), the signer goes on with r+1: its quota must still count the r+1 entries
    for lead in (maxp - 2, maxp // 2, 3):
        S.append({"name": "out-of-order-flush", "signers": 2, "ops":
                  mk([f"append 8 {k:04x} {psig(1)}" for k in range(1, lead + 1)]) + mk([f"append 7 aa {psig(1)}", f"append 7 aa {psig(0)}"]) +
                  ["dump", "flush 7", "sizes", "dump"] + mk([f"append 8 {k:04x} {psig(1)}" for k in range(maxp, 2 * maxp + 3)]) +
                  ["flush 6", "sizes"] + mk([f"append 9 {k:04x} {psig(1)}" for k in range(1, 5)]) + ["dump"]})
    n = 10 if tier == "quick" else 200
    for i in range(n):
        r = rng.fork(f"cache{i}")
        ns = r.range(2, 5)
        ops = []
        for _ in range(r.range(150, 700)):
            k = r.below(100)
            idx = r.below(ns)
            if k < 70:
                ops += [f"append {r.range(1, 6) if r.chance(1, 2) else r.range(1, 400)} {r.choice(['-', 'aa', '%04x' % r.below(300)])} {psig(idx, r.choice(['ab', 'cd']))}", "sizes"]
            elif k < 78:
                ops += [f"append {r.range(1, 9)} aa {('%04x' % idx) + 'ab' * r.choice([0, 1, 95, 97])}", "sizes"]   # malformed length
            elif k < 86:
                fr = r.range(0, 8)
                if r.chance(1, 3):      # a burst for the rounds above the flushed one first, then the flushed round itself
                    ops += sum([[f"append {fr + r.range(1, 2)} {'%04x' % r.below(300)} {psig(idx)}", "sizes"] for _ in range(r.range(1, 40))], [])
                    ops += [f"append {fr} aa {psig(idx)}", "sizes"]
                ops += [f"flush {fr}", "sizes"]
            elif k < 94:
                ops += ["dump"]
            else:
                ops += [f"len {r.range(1, 6)} aa"]
        S.append({"name": "flood", "signers": ns, "ops": ops + ["dump"]})
    return S


def parse_dump(out):
    m = re.match(r"R\[(.*)\] C\[(.*)\]$", out)
    rounds = {}
    for e in m.group(1).split():
        k, v = e.split("=")
        rounds[k] = set(x.split("/")[0] for x in v.split(",")) if v else set()     # "signer/first bytes of the cached partial"
    return rounds


def cache_oracle(ops, outs, maxp, signers):
    """per-signer list never above the quota, number of round caches ≤ signers × quota, never 'evicted round missing',
    an Append by signer i never removes an entry of signer j ≠ i — checked after every op on the implementation's answers"""
    prev = None          # the last dump, if no flush happened since
    appended = set()     # signers that appended since then
    seen = set()
    for i, (op, out) in enumerate(zip(ops, outs)):
        f = op.split()
        if out.startswith("panic") or out == "bad-op" or out.startswith("dump-mismatch"):
            return f"`{op[:40]}` answered {out}"
        if f[0] == "append":
            if out == "err-evicted":
                return f"op {i}: Append answered 'evicted round missing from cache' (the signer is wedged)"
            if out == "ok" and len(f[3]) >= 4:
                seen.add(int(f[3][:4], 16))
                appended.add(int(f[3][:4], 16))
        elif f[0] == "sizes":
            nr, mx = map(int, out.split())
            if mx > maxp:
                return f"op {i}: a signer's list holds {mx} > {maxp} ids"
            if nr > maxp * max(1, len(seen)):
                return f"op {i}: {nr} round caches for {len(seen)} signers (bound {maxp} each)"
        elif f[0] == "flush":
            prev = None
        elif f[0] == "dump":
            cur = parse_dump(out)
            held = {}
            for k, who in cur.items():
                for j in who:
                    held[j] = held.get(j, 0) + 1
            for j, cnt in sorted(held.items()):
                if cnt > maxp:
                    return f"op {i}: {cnt} round caches hold a partial of signer {int(j)} (per-member bound {maxp})"
            if prev is not None:
                for k, who in prev.items():
                    for j in who:
                        if int(j) not in appended and j not in cur.get(k, set()):
                            return f"op {i}: the partial of signer {int(j)} for {k} vanished although only signers {sorted(appended)} appended since the last dump"
            prev, appended = cur, set()
    return None


# ------------------------------------------------------------------------------------------ (c) flood, (d) remap
def flood_script(nrep, maxp):
    return (["init 4 3", "partial 1 1 real"] + [f"partial 1 1 junk:{k}" for k in range(nrep)] +
            ["partial 2 1 real", "partial 3 1 real", "await 1", "last"])


def explore(ctx, res):
    rng = ctx["rng"]
    tier = "thorough" if ctx["deep"] else ctx["tier"]
    facts = gen_facts()
    cap, maxp = facts["cap"], facts["maxp"]
    total = validated = 0
    nontriv = set()
    dist = {"cbstore": {}, "cache": {}, "flood": {}, "deviations": {}}
    samples = []
    env = dict(os.environ, GOMEMLIMIT="6GiB")

    def count(where, key, n=1):
        dist[where][key] = dist[where].get(key, 0) + n

    # ---- (b) cache: corpus witnesses first, then floods
    scens = cache_scenarios(rng, tier, maxp)
    lines = [l for s in scens for l in s["ops"] + ["reset"]]
    if ctx["model_ok"]:
        impl, model = core.run_both("cache", [], lines)
    else:
        rc, impl, err = core.run_lines(H(), ["cache"], lines, env=env)
        model = None
    i = 0
    for s in scens:
        n = len(s["ops"])
        outs = impl[i:i + n]
        total += n
        for op, o in zip(s["ops"], outs):
            count("cache", op.split()[0] + ":" + (o if o in ("ok", "err-index", "err-evicted") else "."))
        mx = max([int(o.split()[1]) for op, o in zip(s["ops"], outs) if op == "sizes"] or [0])
        count("cache", "max-list-len-seen=%d" % mx)
        if mx >= maxp:
            nontriv.add(("cache", tuple(s["ops"][:50]), len(s["ops"])))
        why = cache_oracle(s["ops"], outs, maxp, s["signers"])
        if why:
            res.add_violation({"engine": "cache", "kind": "impl-violates", "scenario": s["name"], "ops": s["ops"], "observed": outs, "oracle": why})
            return finish(res, total, nontriv, dist, samples, validated)
        if model is not None:
            mo = model[i:i + n]
            if mo != outs:
                j = core.first_diff(outs, mo)
                res.add_violation({"engine": "cache", "kind": "model-impl-diverge", "scenario": s["name"], "ops": s["ops"][:j + 1],
                                   "observed": outs[j:j + 1], "expected": mo[j:j + 1],
                                   "note": "the cache model no longer matches partialCache; the bound/isolation oracle accepts the implementation's answers"}, found=False)
                return finish(res, total, nontriv, dist, samples, validated)
            validated += 1
        i += n + 1
    samples.append({"engine": "cache", "scenario": scens[0]["name"], "ops": [o[:60] for o in scens[0]["ops"][:6]], "impl": impl[:6]})

    # ---- (a) cbstore
    scens = cb_scenarios(rng, tier, cap)
    def run_cb(s):
        rc, o, e = core.run_lines(H(), ["cbstore"], s["ops"], timeout=900, env=env)
        if rc != 0:
            raise core.Broken("harness:cbstore", e[-1000:])
        m = None
        if ctx["model_ok"]:
            rc2, m, e2 = core.run_lines(D(), ["cbstore"], s["ops"], timeout=900)
            if rc2 != 0:
                raise core.Broken("model:cbstore", e2[-1000:])
        return s, o, m
    with ThreadPoolExecutor(max_workers=8) as ex:
        results = list(ex.map(run_cb, scens))
    stall_seen = stall_witness = False
    ended_seen = False
    for s, outs, mo in results:
        total += len(s["ops"])
        for op, o in zip(s["ops"], outs):
            count("cbstore", op.split()[0] + ":" + o.split()[0] if op.split()[0] in ("put", "add", "adds", "remove", "wait") else op.split()[0])
        if any(o.startswith("ok ") for o in outs):
            nontriv.add(("cbstore", tuple(s["ops"])))
        V, Dv = cb_oracle(s["ops"], outs, cap)
        if V:
            res.add_violation({"engine": "cbstore", "kind": "impl-violates", "scenario": s["name"], "ops": compress(s["ops"]), "observed": compress(outs), "oracle": V[0]})
            return finish(res, total, nontriv, dist, samples, validated)
        matches = mo is None or mo == outs
        if not matches:
            j = core.first_diff(outs, mo)
            res.add_violation({"engine": "cbstore", "kind": "model-impl-diverge", "scenario": s["name"], "ops": compress(s["ops"][:j + 1]),
                               "observed": outs[j:j + 1], "expected": mo[j:j + 1],
                               "note": f"callbackStore model (variant blocking={facts['blocking']} ends={facts['ends']}, read off the source) no longer matches the implementation"}, found=False)
            return finish(res, total, nontriv, dist, samples, validated)
        validated += 1
        if s.get("expect"):
            if facts["ends"]:
                # a repaired tree: the witness must not stall any more and must answer as recorded
                bad = [f"`{op}` answered {o[:60]}" for op, o in zip(s["ops"], outs) if o.startswith(("blocked", "still-blocked"))]
                bad += [f"`{op}` answered {o[:40]}…{o[-20:]}, recorded repaired answer {want[:40]}…{want[-20:]}" for op, want in s["repaired"].items()
                        for o in [o2 for op2, o2 in zip(s["ops"], outs) if op2 == op][-1:] if o != want]
                if bad or Dv:
                    res.add_violation({"engine": "cbstore", "kind": "impl-violates", "scenario": s["name"], "ops": compress(s["ops"]), "observed": compress(outs),
                                       "oracle": "go2lean recognised the repaired callbackStore, but the recorded stall witness does not give the repaired answers: " + "; ".join(bad + [d[1] for d in Dv])[:600]})
                    return finish(res, total, nontriv, dist, samples, validated)
                count("cbstore", "witness-repaired:" + s["name"])
            elif not any(sig == s["expect"] for sig, _ in Dv):
                count("deviations", "witness-no-longer-fails:" + s["expect"])
        for sig, what in Dv:
            count("deviations", sig)
            if s["name"] in ("stall", "stall-add"):
                stall_seen = True
            if sig == SIG_STALL and s["name"] in ("stall", "overflow-reconnect", "corpus:stall_put.json"):
                stall_witness = True
            res.report(sig, {"engine": "cbstore", "kind": "impl-violates", "scenario": s["name"], "ops": compress(s["ops"]), "observed": compress(outs), "oracle": what})
            if res.violations:
                return finish(res, total, nontriv, dist, samples, validated)
        if s["name"] == "overflow-reconnect":
            # observed, not assumed: the consumer that fell behind heard `closed` as its last word
            g = [o for op, o in zip(s["ops"], outs) if op == "got c"]
            ended_seen = len(g) >= 2 and g[1].endswith(",closed") and g[1].split(",")[:-1] == [str(x) for x in range(1, len(g[1].split(",")))]
            samples.append({"engine": "cbstore", "scenario": s["name"], "ops": compress(s["ops"]), "impl": compress([o if len(o) < 80 else o[:30] + " … " + o[-30:] for o in outs])})
        if s["name"] == "stall":
            samples.append({"engine": "cbstore", "scenario": "stall", "ops": compress(s["ops"]), "impl": compress(outs)})
    # the regenerated fact and the observed behaviour must agree (a repaired dispatch flips both, and the finding disappears)
    observed_blocking = stall_witness
    if observed_blocking != facts["blocking"] or ended_seen != facts["ends"]:
        res.add_violation({"engine": "cbstore", "kind": "model-impl-diverge", "ops": ["stall witness", "overflow-reconnect"],
                           "note": f"go2lean says the dispatch in callbackStore.Put to a stream consumer is {'a plain send' if facts['blocking'] else 'non-blocking'}"
                                   f"{' and ends a consumer whose queue is full' if facts['ends'] else ''}, but the stall witness {'does' if observed_blocking else 'does not'} block "
                                   f"and the overflowing stream consumer {'was' if ended_seen else 'was not'} told `closed`"}, found=False)
        return finish(res, total, nontriv, dist, samples, validated)

    # ---- (c) node level: replay of a member's valid partial with junk previous signatures
    for scheme, chained in (("pedersen-bls-unchained", False), ("bls-unchained-g1-rfc9380", False), ("pedersen-bls-chained", True)):
        for nrep in (maxp - 1, maxp):
            ops = flood_script(nrep, maxp)
            rc, o, e = core.run_lines(H(), ["flood", scheme], ops, env=env)
            if rc != 0:
                raise core.Broken("harness:flood", e[-1000:])
            total += len(ops)
            nontriv.add(("flood", scheme, nrep))
            accepted = sum(1 for op, x in zip(ops, o) if "junk" in op and x == "ok")
            count("flood", f"{scheme}:replays-accepted", accepted)
            stored = o[-2] == "stored"
            count("flood", f"{scheme}:{nrep}-replays:{'stored' if stored else 'not-stored'}")
            honest_ok = all(x == "ok" for op, x in zip(ops, o) if op.endswith("real"))
            rep = {"engine": "flood", "scheme": scheme, "kind": "impl-violates", "ops": compress(ops), "observed": compress(o)}
            if not honest_ok:
                res.add_violation(dict(rep, oracle="an honest member's valid partial was refused")); return finish(res, total, nontriv, dist, samples, validated)
            if chained and accepted:
                res.add_violation(dict(rep, oracle=f"{accepted} replays with an altered previous signature verified on a chained scheme")); return finish(res, total, nontriv, dist, samples, validated)
            if not stored:
                if (not chained) and nrep >= maxp and accepted == nrep:
                    count("deviations", SIG_REPLAY)
                    res.report(SIG_REPLAY, dict(rep, oracle=f"round 1 was not aggregated although members 1, 2, 3 (threshold 3) each sent a valid partial: {nrep} replays of member 1's partial with junk previous signatures evicted its real entry"))
                    if res.violations:
                        return finish(res, total, nontriv, dist, samples, validated)
                else:
                    res.add_violation(dict(rep, oracle="threshold-many valid partials were sent but the round was not stored")); return finish(res, total, nontriv, dist, samples, validated)
    # one member flooding its own quota with many (round, previous signature) ids does not stop the others (isolation, node level)
    ops = ["init 4 3"] + [f"partial 1 {1 + k % 4} junk:{k}" for k in range(2 * maxp + 20)] + ["partial 2 1 real", "partial 3 1 real", "partial 1 1 real", "await 1", "last"]
    rc, o, e = core.run_lines(H(), ["flood", "pedersen-bls-unchained"], ops, env=env)
    total += len(ops)
    if rc != 0 or o[-2] != "stored":
        res.add_violation({"engine": "flood", "kind": "impl-violates", "ops": compress(ops), "observed": compress(o),
                           "oracle": "a flood by member 1 kept the round from being aggregated from the partials of 2, 3 and 1"})
        return finish(res, total, nontriv, dist, samples, validated)
    count("flood", "self-flood-then-honest:stored")

    # ---- (d) bolt: a client stopped inside the catch-up scan holds the read transaction open
    for backend, n0 in (("trimmed", 3), ("bolt", 3), ("mem16", 3)):
        ops = [f"init 1 {n0} raw", "start a 8.8.8.8:1001 1 sync", "begin a", "scanstep a"] + ["put"] * 60 + ["scanall a", "wait", "head"]
        rc, o, e = core.run_lines(H(), ["stream", backend], ops, env=env)
        total += len(ops)
        if rc != 0:
            raise core.Broken("harness:stream", e[-1000:])
        blocked = [x for x in o if x.startswith("blocked")]
        count("flood", f"scan-open:{backend}:{'put-blocked' if blocked else 'puts-ok'}")
        if blocked:
            k = o.index(blocked[0])
            rep = {"engine": "stream", "backend": backend, "kind": "impl-violates", "ops": ops[:k + 1], "observed": o[:k + 1],
                   "oracle": f"Put of round {blocked[0].split()[1]} did not return within the watchdog while a stream client was stopped inside its first Send of the catch-up scan"}
            if backend.startswith("mem"):
                res.add_violation(rep); return finish(res, total, nontriv, dist, samples, validated)
            count("deviations", SIG_REMAP)
            res.report(SIG_REMAP, rep)
            if res.violations:
                return finish(res, total, nontriv, dist, samples, validated)
            if o[-2] != "done":
                res.add_violation(dict(rep, oracle="the Put stayed blocked after the scan had finished")); return finish(res, total, nontriv, dist, samples, validated)
    return finish(res, total, nontriv, dist, samples, validated)


def compress(xs):
    """run-length form for the long witnesses"""
    out = []
    for x in xs:
        key = re.sub(r"\d+", "#", x) if x.startswith(("ok ", "partial")) else x
        if out and out[-1][0] == key:
            out[-1][1] += 1; out[-1][3] = x
        else:
            out.append([key, 1, x, x])
    return [a if n == 1 else f"{a} .. {b}  (×{n})" for _, n, a, b in out]


def finish(res, total, nontriv, dist, samples, validated):
    res.level = "proof"
    res.cov["evaluations"] = total
    res.cov["distinct_nontrivial"] = len(nontriv)
    res.cov["traces_validated_against_impl"] = validated
    res.cov["rule"] = ("(a) cbstore: the stall witness (gated STREAM consumer, CallbackWorkerQueue+2 Puts, RemoveCallback), the reconnect-under-write-lock witness, overflow-reconnect (CallbackWorkerQueue+5 Puts past a stream consumer that "
                       "stopped reading: every Put returns or the known stall is reported; the consumer gets a gap-free prefix, then `closed`, then nothing; a silent skip fails), internal-full (the node does wait for its OWN callback), "
                       "a slow-but-live consumer, and seeded scenarios with up to 5 fast/gated own/stream consumers, "
                       "registrations/removals at any time and never more than CallbackWorkerQueue outstanding jobs per gated consumer — there every Put/Add/Remove must return within the watchdog and every consumer must get exactly "
                       "the rounds stored while registered, in order; (b) cache: the two pre-fix witnesses, one signer × 3·Max rounds, × 2·Max previous signatures, seeded floods of 2–5 signers with malformed partials and flushes, sizes checked "
                       "after every op, isolation checked between dumps; (c) flood: real Handler, n=4 thr=3, Max-1 and Max replays of a member's valid partial with junk previous signatures on two unchained schemes and the chained one, "
                       "and a self-flood followed by honest partials; (d) stream: un-pre-grown bolt/memdb stores with a client stopped in its first Send and 60 Puts. evaluations = op lines")
    res.cov["samples"] = samples
    res.cov["distribution"] = dist
