"""C12 — remote parties cannot stall beacon storage or grow node state without bound.

(a) callbackStore: engine `cbstore` = the real callbackStore(appendStore(schemeStore(memdb))) with scripted consumers
    (fast / gated = a stream client that stopped reading), every Put / AddCallback / RemoveCallback under a 2 s watchdog.
(b) partial cache: engine `cache` = the real partialCache, sizes observed after every Append/Flush.
(c) node level: engine `flood` = a real beacon.Handler with real keys: ProcessPartialBeacon → aggregator → cache.
(d) catch-up scan on bolt: engine `stream` (C11) with an un-pre-grown bolt file and a client stopped in its first Send.
"""
import glob, json, os, re
from concurrent.futures import ThreadPoolExecutor
from .. import core

ID = "C12"
MODULE = "DrandProofs.C12"
CB_THEOREMS = ["Drand.Chain.Callback." + t for t in [
    "c12_queue_bound", "c12_put_never_waits", "c12_put_completes_alone", "c12_put_nonblocking_partial", "c12_stall_counterexample",
    "stuck_blocks", "c12_stall_is_permanent", "c12_addcallback_stall_counterexample", "c12_worker_fifo",
    "tie_callback_put_shape", "tie_callback_queue_const"]]
CACHE_THEOREMS = ["Drand.Beacon." + t for t in [
    "c12_cache_inv", "c12_cache_bound", "c12_rounds_listed", "c12_no_wedge", "c12_append_takes", "c12_isolation", "c12_flush_exact",
    "append_duplicate", "tie_cache_append_variant"]]
THEOREMS = CB_THEOREMS + CACHE_THEOREMS
TRUSTED = ["Lean 4 kernel; axioms per theorem under coverage.axioms",
           "modelled, not verified: goroutines as explicit steps, a buffered channel as a bounded FIFO list, sync.RWMutex as 'writers wait for readers and vice versa' (Go's writer preference is not needed for any statement)",
           "go2lean facts: Gen.callbackWorkerQueue, Gen.maxPartialsPerNode, Gen.callbackPutDispatchBlocking (plain send vs select/default), callbackPutHoldsReadLock, callbackPutBaseFirst, callbackAdd/RemoveLocked, callbackAddCloseSendBlocking",
           "harness engines 'cbstore', 'cache', 'flood' (real keys and threshold shares), 'stream'; a Put/AddCallback/RemoveCallback that has not returned after the watchdog (2 s) is reported as blocked",
           "gRPC flow control (a client that stops reading eventually blocks stream.Send) is assumed, not reproduced: the scripted consumer blocks in its callback directly"]
ASSUMPTIONS = ["a stream client that stops reading makes stream.Send block (HTTP/2 flow control)",
               "partials reach the cache only through ProcessPartialBeacon → runAggregator (window (head, head+4])"]

SIG_STALL = "callbackstore:put-blocks-on-full-queue"
SIG_ADD = "callbackstore:addcallback-close-signal-blocks-under-write-lock"
SIG_REMAP = "boltstore:put-waits-for-open-cursor-on-mmap-grow"
SIG_REPLAY = "partialcache:unchained-prev-replay-evicts-signer"
H = lambda: os.path.join(core.BUILD, "verifh")
D = lambda: os.path.join(core.LEAN, ".lake", "build", "bin", "vdriver")


def gen_facts():
    txt = open(os.path.join(core.LEAN, "Gen", "Consts.lean")).read() + open(os.path.join(core.LEAN, "Gen", "Callback.lean")).read()
    g = lambda n: re.search(r"def %s : \w+ := (\S+)" % n, txt).group(1)
    return {"cap": int(g("callbackWorkerQueue")), "maxp": int(g("maxPartialsPerNode")), "blocking": g("callbackPutDispatchBlocking") == "true",
            "add_blocking": g("callbackAddCloseSendBlocking") == "true"}


# ------------------------------------------------------------------------------------------ (a) cbstore
def cb_scenarios(rng, tier, cap):
    S = []
    # the stall witness: one consumer whose callback never returns, cap+2 Puts, then RemoveCallback
    S.append({"name": "stall", "ops": ["init", "add c gate", "add d fast"] + ["put"] * (cap + 2) +
              ["remove c", "last", "release c 1", "wait", "got d", "release c 500", "wait", "got c", "got d", "put", "got d"]})
    # the reconnect-under-write-lock witness
    S.append({"name": "stall-add", "ops": ["init", "add c gate"] + ["put"] * (cap + 1) + ["add c fast", "last", "release c 1", "wait", "put", "got c"]})
    # a slow but live consumer never blocks anybody as long as it keeps up within the queue
    S.append({"name": "slow", "ops": ["init", "add s gate", "add f fast"] +
              sum([["put"] * 60 + ["release s 60", "got f"] for _ in range(4)], []) + ["release s 10", "wait", "got s", "got f"]})
    # generated: several consumers, registrations and removals at any time, never more than `cap` outstanding per gated consumer
    n = 12 if tier == "quick" else 300
    for i in range(n):
        r = rng.fork(f"cb{i}")
        ops = ["init"]
        cons = {}
        outstanding = {}
        for _ in range(r.range(30, 120)):
            k = r.below(100)
            if k < 12 and len(cons) < 5:
                cid = "k%d" % r.below(6)
                if cid in cons and cons[cid] == "gate" and outstanding.get(cid, 0) > 0:
                    continue   # replacing a consumer that sits in its callback is the reconnect scenario above
                cons[cid] = r.choice(["fast", "gate"])
                outstanding[cid] = 0
                ops.append(f"add {cid} {cons[cid]}")
            elif k < 18 and cons:
                cid = r.choice(sorted(cons))
                ops.append(f"remove {cid}")
                del cons[cid]
            elif k < 70:
                if any(m == "gate" and outstanding[c] >= cap for c, m in cons.items()):
                    continue
                ops.append("put")
                for c, m in cons.items():
                    if m == "gate":
                        outstanding[c] += 1
            elif k < 85:
                g = [c for c, m in cons.items() if m == "gate" and outstanding[c] > 0]
                if g:
                    c = r.choice(g)
                    q = r.range(1, outstanding[c])
                    outstanding[c] -= q
                    ops.append(f"release {c} {q}")
            elif cons:
                ops.append(f"got {r.choice(sorted(cons))}")
        for c, m in cons.items():
            if m == "gate":
                ops.append(f"release {c} 1000")
        ops.append("wait")
        ops += [f"got {c}" for c in sorted(cons)]
        S.append({"name": "generated", "ops": ops})
    return S


def cb_oracle(ops, outs, cap):
    """C12(a) on the implementation's transcript: no Put / AddCallback / RemoveCallback ever waits; every consumer gets
    exactly the rounds stored while it was registered, in order. Returns (violations, deviations)."""
    V, Dv = [], []
    reg = {}        # id -> {"mode", "from": first round it must see, "handed": jobs handed over, "returned": callbacks allowed to return}
    removed = {}
    head = 0
    blocked_put = False
    for op, out in zip(ops, outs):
        f = op.split()
        if out.startswith(("panic", "err", "unsettled")) or out == "bad-op":
            V.append(f"`{op}` answered {out}"); return V, Dv
        if f[0] == "init":
            reg, removed, head, blocked_put = {}, {}, 0, False
        elif f[0] == "put":
            if out == "bad-state":
                continue
            r = int(out.split()[1])
            if r != head + 1:
                V.append(f"put stored {r} after {head}"); return V, Dv
            head = r
            # a gated consumer that sits in a callback with CallbackWorkerQueue jobs queued behind it has a full queue
            full = [c for c, k in reg.items() if k["mode"] == "gate" and len(k["jobs"]) - k["credits"] >= cap + 1]
            if out.startswith("blocked"):
                blocked_put = True
                for c, k in reg.items():
                    k["jobs"].append(r)
                if full:
                    Dv.append((SIG_STALL, f"Put of round {r} did not return within the watchdog: consumer {full[0]} has not returned from its callback and {cap} jobs are queued behind it"))
                else:
                    V.append(f"Put of round {r} blocked although no consumer has a full queue"); return V, Dv
            else:
                for c, k in reg.items():
                    if c in full:
                        k["overflow"].append(r)   # a non-blocking dispatch: the consumer that fell behind misses this job
                    else:
                        k["jobs"].append(r)
        elif f[0] == "add":
            if out == "blocked":
                k = reg.get(f[1])
                if blocked_put:
                    Dv.append((SIG_STALL, "AddCallback waits for the write lock behind the blocked Put"))
                elif k and k["mode"] == "gate" and len(k["jobs"]) - k["credits"] >= cap + 1:
                    Dv.append((SIG_ADD, f"AddCallback({f[1]}) blocks while holding the write lock: the close signal cannot enter the full queue of the consumer it replaces"))
                else:
                    V.append(f"`{op}` blocked without a listed circumstance"); return V, Dv
                reg[f[1]] = {"mode": f[2], "first": None, "jobs": [], "overflow": [], "credits": 0, "pending": True}
            elif out == "ok":
                reg[f[1]] = {"mode": f[2], "first": head + 1, "jobs": [], "overflow": [], "credits": 0}
        elif f[0] == "remove":
            if out == "blocked":
                if blocked_put:
                    Dv.append((SIG_STALL, f"RemoveCallback({f[1]}) cannot take the write lock while the blocked Put holds the read lock"))
                else:
                    V.append(f"`{op}` blocked without a listed circumstance"); return V, Dv
            if f[1] in reg:
                removed[f[1]] = dict(reg.pop(f[1]), last=head)
        elif f[0] == "release":
            k = reg.get(f[1]) or removed.get(f[1])
            if k:
                k["credits"] += int(f[2])
        elif f[0] == "wait":
            if out != "done":
                V.append(f"still blocked after every consumer was released: {out}"); return V, Dv
            blocked_put = False
            for c, k in reg.items():
                if k.get("pending"):
                    k["first"] = head + 1
                    k.pop("pending")
        elif f[0] == "got":
            k = reg.get(f[1]) or removed.get(f[1])
            if k is None or out == "bad-state" or k.get("pending"):
                continue
            got = [] if out == "-" else out.split(",")
            rounds = [int(x) for x in got if x != "closed"]
            if k["first"] is None:
                continue
            last = k.get("last", head)
            jobs = k["jobs"]
            entered = len(jobs) if k["mode"] == "fast" else min(len(jobs), k["credits"] + 1)
            want = jobs[:entered]
            if blocked_put:
                # the blocked Put has reached some consumers and not others
                ok = rounds == want or rounds == want[:-1] or rounds[:-1] == want
            else:
                ok = rounds == want
            if not ok:
                V.append(f"consumer {f[1]} ({k['mode']}, registered before round {k['first']}, {k['credits']} callbacks released, store at {last}) got {rounds[:4]}..{rounds[-3:]} ({len(rounds)} rounds), expected exactly {want[:1]}..{want[-1:]} ({len(want)}; dropped for overflow: {k['overflow']})"); return V, Dv
        elif f[0] == "qlen":
            if out.isdigit() and int(out) > cap:
                V.append(f"queue of {f[1]} holds {out} > {cap} jobs"); return V, Dv
    return V, Dv


# ------------------------------------------------------------------------------------------ (b) cache
def psig(idx, body="ab"):
    return f"{idx:04x}" + body * 96


def cache_scenarios(rng, tier, maxp):
    S = []
    # pre-fix witnesses (both repaired in /repo; they run first on every check)
    for f in sorted(glob.glob(os.path.join(core.VERIF, "corpus", ID, "*.json"))):
        c = json.load(open(f))
        if c.get("engine") == "cache":
            S.append({"name": "corpus:" + os.path.basename(f), "ops": c["ops"], "signers": c.get("signers", 2)})
    mk = lambda ops: sum([[o, "sizes"] for o in ops], [])
    # one signer × many rounds, × many previous signatures, replays, then honest traffic from the others
    S.append({"name": "many-rounds", "signers": 3, "ops": mk([f"append {r} aa {psig(1)}" for r in range(1, 3 * maxp)]) +
              mk([f"append {3 * maxp - 1} aa {psig(2)}", f"append {3 * maxp - 1} aa {psig(0)}"]) + [f"len {3 * maxp - 1} aa", "dump"]})
    S.append({"name": "many-prevs", "signers": 3, "ops": mk([f"append 7 - {psig(2)}", f"append 7 - {psig(1)}"]) +
              mk([f"append 7 {k:04x} {psig(1)}" for k in range(1, 2 * maxp + 5)]) + ["len 7 -", "dump", "flush 7", "sizes", "dump"]})
    # out-of-order arrival: a signer's partials for round r+1 (distinct previous signatures) are recorded BEFORE its partial
    # for round r, round r is stored (flush r), the signer goes on with r+1: its quota must still count the r+1 entries
    for lead in (maxp - 2, maxp // 2, 3):
        S.append({"name": "out-of-order-flush", "signers": 2, "ops":
                  mk([f"append 8 {k:04x} {psig(1)}" for k in range(1, lead + 1)]) + mk([f"append 7 aa {psig(1)}", f"append 7 aa {psig(0)}"]) +
                  ["dump", "flush 7", "sizes", "dump"] + mk([f"append 8 {k:04x} {psig(1)}" for k in range(maxp, 2 * maxp + 3)]) +
                  ["flush 6", "sizes"] + mk([f"append 9 {k:04x} {psig(1)}" for k in range(1, 5)]) + ["dump"]})
    n = 10 if tier == "quick" else 200
    for i in range(n):
        r = rng.fork(f"cache{i}")
        ns = r.range(2, 5)
        ops = []
        for _ in range(r.range(150, 700)):
            k = r.below(100)
            idx = r.below(ns)
            if k < 70:
                ops += [f"append {r.range(1, 6) if r.chance(1, 2) else r.range(1, 400)} {r.choice(['-', 'aa', '%04x' % r.below(300)])} {psig(idx, r.choice(['ab', 'cd']))}", "sizes"]
            elif k < 78:
                ops += [f"append {r.range(1, 9)} aa {('%04x' % idx) + 'ab' * r.choice([0, 1, 95, 97])}", "sizes"]   # malformed length
            elif k < 86:
                fr = r.range(0, 8)
                if r.chance(1, 3):      # a burst for the rounds above the flushed one first, then the flushed round itself
                    ops += sum([[f"append {fr + r.range(1, 2)} {'%04x' % r.below(300)} {psig(idx)}", "sizes"] for _ in range(r.range(1, 40))], [])
                    ops += [f"append {fr} aa {psig(idx)}", "sizes"]
                ops += [f"flush {fr}", "sizes"]
            elif k < 94:
                ops += ["dump"]
            else:
                ops += [f"len {r.range(1, 6)} aa"]
        S.append({"name": "flood", "signers": ns, "ops": ops + ["dump"]})
    return S


def parse_dump(out):
    m = re.match(r"R\[(.*)\] C\[(.*)\]$", out)
    rounds = {}
    for e in m.group(1).split():
        k, v = e.split("=")
        rounds[k] = set(x.split("/")[0] for x in v.split(",")) if v else set()     # "signer/first bytes of the cached partial"
    return rounds


def cache_oracle(ops, outs, maxp, signers):
    """per-signer list never above the quota, number of round caches ≤ signers × quota, never 'evicted round missing',
    an Append by signer i never removes an entry of signer j ≠ i — checked after every op on the implementation's answers"""
    prev = None          # the last dump, if no flush happened since
    appended = set()     # signers that appended since then
    seen = set()
    for i, (op, out) in enumerate(zip(ops, outs)):
        f = op.split()
        if out.startswith("panic") or out == "bad-op" or out.startswith("dump-mismatch"):
            return f"`{op[:40]}` answered {out}"
        if f[0] == "append":
            if out == "err-evicted":
                return f"op {i}: Append answered 'evicted round missing from cache' (the signer is wedged)"
            if out == "ok" and len(f[3]) >= 4:
                seen.add(int(f[3][:4], 16))
                appended.add(int(f[3][:4], 16))
        elif f[0] == "sizes":
            nr, mx = map(int, out.split())
            if mx > maxp:
                return f"op {i}: a signer's list holds {mx} > {maxp} ids"
            if nr > maxp * max(1, len(seen)):
                return f"op {i}: {nr} round caches for {len(seen)} signers (bound {maxp} each)"
        elif f[0] == "flush":
            prev = None
        elif f[0] == "dump":
            cur = parse_dump(out)
            held = {}
            for k, who in cur.items():
                for j in who:
                    held[j] = held.get(j, 0) + 1
            for j, cnt in sorted(held.items()):
                if cnt > maxp:
                    return f"op {i}: {cnt} round caches hold a partial of signer {int(j)} (per-member bound {maxp})"
            if prev is not None:
                for k, who in prev.items():
                    for j in who:
                        if int(j) not in appended and j not in cur.get(k, set()):
                            return f"op {i}: the partial of signer {int(j)} for {k} vanished although only signers {sorted(appended)} appended since the last dump"
            prev, appended = cur, set()
    return None


# ------------------------------------------------------------------------------------------ (c) flood, (d) remap
def flood_script(nrep, maxp):
    return (["init 4 3", "partial 1 1 real"] + [f"partial 1 1 junk:{k}" for k in range(nrep)] +
            ["partial 2 1 real", "partial 3 1 real", "await 1", "last"])


def explore(ctx, res):
    rng = ctx["rng"]
    tier = "thorough" if ctx["deep"] else ctx["tier"]
    facts = gen_facts()
    cap, maxp = facts["cap"], facts["maxp"]
    total = validated = 0
    nontriv = set()
    dist = {"cbstore": {}, "cache": {}, "flood": {}, "deviations": {}}
    samples = []
    env = dict(os.environ, GOMEMLIMIT="6GiB")

    def count(where, key, n=1):
        dist[where][key] = dist[where].get(key, 0) + n

    # ---- (b) cache: corpus witnesses first, then floods
    scens = cache_scenarios(rng, tier, maxp)
    lines = [l for s in scens for l in s["ops"] + ["reset"]]
    if ctx["model_ok"]:
        impl, model = core.run_both("cache", [], lines)
    else:
        rc, impl, err = core.run_lines(H(), ["cache"], lines, env=env)
        model = None
    i = 0
    for s in scens:
        n = len(s["ops"])
        outs = impl[i:i + n]
        total += n
        for op, o in zip(s["ops"], outs):
            count("cache", op.split()[0] + ":" + (o if o in ("ok", "err-index", "err-evicted") else "."))
        mx = max([int(o.split()[1]) for op, o in zip(s["ops"], outs) if op == "sizes"] or [0])
        count("cache", "max-list-len-seen=%d" % mx)
        if mx >= maxp:
            nontriv.add(("cache", tuple(s["ops"][:50]), len(s["ops"])))
        why = cache_oracle(s["ops"], outs, maxp, s["signers"])
        if why:
            res.add_violation({"engine": "cache", "kind": "impl-violates", "scenario": s["name"], "ops": s["ops"], "observed": outs, "oracle": why})
            return finish(res, total, nontriv, dist, samples, validated)
        if model is not None:
            mo = model[i:i + n]
            if mo != outs:
                j = core.first_diff(outs, mo)
                res.add_violation({"engine": "cache", "kind": "model-impl-diverge", "scenario": s["name"], "ops": s["ops"][:j + 1],
                                   "observed": outs[j:j + 1], "expected": mo[j:j + 1],
                                   "note": "the cache model no longer matches partialCache; the bound/isolation oracle accepts the implementation's answers"}, found=False)
                return finish(res, total, nontriv, dist, samples, validated)
            validated += 1
        i += n + 1
    samples.append({"engine": "cache", "scenario": scens[0]["name"], "ops": [o[:60] for o in scens[0]["ops"][:6]], "impl": impl[:6]})

    # ---- (a) cbstore
    scens = cb_scenarios(rng, tier, cap)
    def run_cb(s):
        rc, o, e = core.run_lines(H(), ["cbstore"], s["ops"], timeout=900, env=env)
        if rc != 0:
            raise core.Broken("harness:cbstore", e[-1000:])
        m = None
        if ctx["model_ok"]:
            rc2, m, e2 = core.run_lines(D(), ["cbstore"], s["ops"], timeout=900)
            if rc2 != 0:
                raise core.Broken("model:cbstore", e2[-1000:])
        return s, o, m
    with ThreadPoolExecutor(max_workers=8) as ex:
        results = list(ex.map(run_cb, scens))
    stall_seen = False
    for s, outs, mo in results:
        total += len(s["ops"])
        for op, o in zip(s["ops"], outs):
            count("cbstore", op.split()[0] + ":" + o.split()[0] if op.split()[0] in ("put", "add", "remove", "wait") else op.split()[0])
        if any(o.startswith("ok ") for o in outs):
            nontriv.add(("cbstore", tuple(s["ops"])))
        V, Dv = cb_oracle(s["ops"], outs, cap)
        if V:
            res.add_violation({"engine": "cbstore", "kind": "impl-violates", "scenario": s["name"], "ops": compress(s["ops"]), "observed": compress(outs), "oracle": V[0]})
            return finish(res, total, nontriv, dist, samples, validated)
        matches = mo is None or mo == outs
        if not matches:
            j = core.first_diff(outs, mo)
            res.add_violation({"engine": "cbstore", "kind": "model-impl-diverge", "scenario": s["name"], "ops": compress(s["ops"][:j + 1]),
                               "observed": outs[j:j + 1], "expected": mo[j:j + 1],
                               "note": f"callbackStore model (variant blocking={facts['blocking']}, read off the source) no longer matches the implementation"}, found=False)
            return finish(res, total, nontriv, dist, samples, validated)
        validated += 1
        for sig, what in Dv:
            count("deviations", sig)
            if s["name"] in ("stall", "stall-add"):
                stall_seen = True
            res.report(sig, {"engine": "cbstore", "kind": "impl-violates", "scenario": s["name"], "ops": compress(s["ops"]), "observed": compress(outs), "oracle": what})
            if res.violations:
                return finish(res, total, nontriv, dist, samples, validated)
        if s["name"] == "stall":
            samples.append({"engine": "cbstore", "scenario": "stall", "ops": compress(s["ops"]), "impl": compress(outs)})
    # the regenerated fact and the observed behaviour must agree (a repaired dispatch flips both, and the finding disappears)
    observed_blocking = dist["deviations"].get(SIG_STALL, 0) > 0
    if observed_blocking != facts["blocking"]:
        res.add_violation({"engine": "cbstore", "kind": "model-impl-diverge", "ops": ["stall witness"],
                           "note": f"go2lean says the dispatch in callbackStore.Put is {'a plain send' if facts['blocking'] else 'non-blocking'} but the stall witness {'does' if observed_blocking else 'does not'} block"}, found=False)
        return finish(res, total, nontriv, dist, samples, validated)

    # ---- (c) node level: replay of a member's valid partial with junk previous signatures
    for scheme, chained in (("pedersen-bls-unchained", False), ("bls-unchained-g1-rfc9380", False), ("pedersen-bls-chained", True)):
        for nrep in (maxp - 1, maxp):
            ops = flood_script(nrep, maxp)
            rc, o, e = core.run_lines(H(), ["flood", scheme], ops, env=env)
            if rc != 0:
                raise core.Broken("harness:flood", e[-1000:])
            total += len(ops)
            nontriv.add(("flood", scheme, nrep))
            accepted = sum(1 for op, x in zip(ops, o) if "junk" in op and x == "ok")
            count("flood", f"{scheme}:replays-accepted", accepted)
            stored = o[-2] == "stored"
            count("flood", f"{scheme}:{nrep}-replays:{'stored' if stored else 'not-stored'}")
            honest_ok = all(x == "ok" for op, x in zip(ops, o) if op.endswith("real"))
            rep = {"engine": "flood", "scheme": scheme, "kind": "impl-violates", "ops": compress(ops), "observed": compress(o)}
            if not honest_ok:
                res.add_violation(dict(rep, oracle="an honest member's valid partial was refused")); return finish(res, total, nontriv, dist, samples, validated)
            if chained and accepted:
                res.add_violation(dict(rep, oracle=f"{accepted} replays with an altered previous signature verified on a chained scheme")); return finish(res, total, nontriv, dist, samples, validated)
            if not stored:
                if (not chained) and nrep >= maxp and accepted == nrep:
                    count("deviations", SIG_REPLAY)
                    res.report(SIG_REPLAY, dict(rep, oracle=f"round 1 was not aggregated although members 1, 2, 3 (threshold 3) each sent a valid partial: {nrep} replays of member 1's partial with junk previous signatures evicted its real entry"))
                    if res.violations:
                        return finish(res, total, nontriv, dist, samples, validated)
                else:
                    res.add_violation(dict(rep, oracle="threshold-many valid partials were sent but the round was not stored")); return finish(res, total, nontriv, dist, samples, validated)
    # one member flooding its own quota with many (round, previous signature) ids does not stop the others (isolation, node level)
    ops = ["init 4 3"] + [f"partial 1 {1 + k % 4} junk:{k}" for k in range(2 * maxp + 20)] + ["partial 2 1 real", "partial 3 1 real", "partial 1 1 real", "await 1", "last"]
    rc, o, e = core.run_lines(H(), ["flood", "pedersen-bls-unchained"], ops, env=env)
    total += len(ops)
    if rc != 0 or o[-2] != "stored":
        res.add_violation({"engine": "flood", "kind": "impl-violates", "ops": compress(ops), "observed": compress(o),
                           "oracle": "a flood by member 1 kept the round from being aggregated from the partials of 2, 3 and 1"})
        return finish(res, total, nontriv, dist, samples, validated)
    count("flood", "self-flood-then-honest:stored")

    # ---- (d) bolt: a client stopped inside the catch-up scan holds the read transaction open
    for backend, n0 in (("trimmed", 3), ("bolt", 3), ("mem16", 3)):
        ops = [f"init 1 {n0} raw", "start a 8.8.8.8:1001 1 sync", "begin a", "scanstep a"] + ["put"] * 60 + ["scanall a", "wait", "head"]
        rc, o, e = core.run_lines(H(), ["stream", backend], ops, env=env)
        total += len(ops)
        if rc != 0:
            raise core.Broken("harness:stream", e[-1000:])
        blocked = [x for x in o if x.startswith("blocked")]
        count("flood", f"scan-open:{backend}:{'put-blocked' if blocked else 'puts-ok'}")
        if blocked:
            k = o.index(blocked[0])
            rep = {"engine": "stream", "backend": backend, "kind": "impl-violates", "ops": ops[:k + 1], "observed": o[:k + 1],
                   "oracle": f"Put of round {blocked[0].split()[1]} did not return within the watchdog while a stream client was stopped inside its first Send of the catch-up scan"}
            if backend.startswith("mem"):
                res.add_violation(rep); return finish(res, total, nontriv, dist, samples, validated)
            count("deviations", SIG_REMAP)
            res.report(SIG_REMAP, rep)
            if res.violations:
                return finish(res, total, nontriv, dist, samples, validated)
            if o[-2] != "done":
                res.add_violation(dict(rep, oracle="the Put stayed blocked after the scan had finished")); return finish(res, total, nontriv, dist, samples, validated)
    return finish(res, total, nontriv, dist, samples, validated)


def compress(xs):
    """run-length form for the long witnesses"""
    out = []
    for x in xs:
        key = re.sub(r"\d+", "#", x) if x.startswith(("ok ", "partial")) else x
        if out and out[-1][0] == key:
            out[-1][1] += 1; out[-1][3] = x
        else:
            out.append([key, 1, x, x])
    return [a if n == 1 else f"{a} .. {b}  (×{n})" for _, n, a, b in out]


def finish(res, total, nontriv, dist, samples, validated):
    res.level = "proof"
    res.cov["evaluations"] = total
    res.cov["distinct_nontrivial"] = len(nontriv)
    res.cov["traces_validated_against_impl"] = validated
    res.cov["rule"] = ("(a) cbstore: the stall witness (gated consumer, CallbackWorkerQueue+2 Puts, RemoveCallback), the reconnect-under-write-lock witness, a slow-but-live consumer, and seeded scenarios with up to 5 fast/gated consumers, "
                       "registrations/removals at any time and never more than CallbackWorkerQueue outstanding jobs per gated consumer — there every Put/Add/Remove must return within the watchdog and every consumer must get exactly "
                       "the rounds stored while registered, in order; (b) cache: the two pre-fix witnesses, one signer × 3·Max rounds, × 2·Max previous signatures, seeded floods of 2–5 signers with malformed partials and flushes, sizes checked "
                       "after every op, isolation checked between dumps; (c) flood: real Handler, n=4 thr=3, Max-1 and Max replays of a member's valid partial with junk previous signatures on two unchained schemes and the chained one, "
                       "and a self-flood followed by honest partials; (d) stream: un-pre-grown bolt/memdb stores with a client stopped in its first Send and 60 Puts. evaluations = op lines")
    res.cov["samples"] = samples
    res.cov["distribution"] = dist
