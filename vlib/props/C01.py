"""C01 — every beacon a node stores or serves is publicly verifiable."""
import glob, json, os
from .. import core, agg, httpw

ID = "C01"
MODULE = "DrandProofs.C01Http"   # imports DrandProofs.C01 (node model) and DrandProofs.C14Http (HTTP waiter invariant)
DEPENDS = ["C18", "C10"]  # base store = sorted map (C18); everything sync writes was verified against the pinned chain info (C10): re-checked with this property (check, P5b)
THEOREMS = ["Drand.Beacon." + t for t in [
    "c01_store_valid", "c01_write_paths_verified", "c01_preimage_binds", "c01_digest_binds", "c01_unchained_ignores_prev",
    "c01_served_from_store", "c01_served_valid", "c01_randomness", "c01_randomness_exits", "c01_exact_round",
    "c01_missing_round_is_error", "c01_bootstrap_verified", "tie_bootstrap", "c01_sync_writes_in_order", "c01_sync_first_is_next", "tie_broadcastNextPartial", "stack_put_spec", "put_inv", "aggCheck_candidate", "step_inv", "run_inv", "init_inv",
    "tie_digest_names", "tie_digest_layouts", "tie_scheme_store_chained", "tie_verifyBeacon", "tie_randomness",
    "tie_tryNode", "tie_tryAppend", "tie_aggregator", "tie_callbackPut", "tie_publicRand"]] + ["Drand.Http." + t for t in [
    # the public HTTP interface: waiter / watch logic of handler/http (model Drand/Http/Waiters.lean)
    "inv_run", "rinv_step", "rinv_runFrom",
    "c01_http_waiter_exact", "c01_http_notify_exact", "c01_http_waiter_exact_partial",
    "c01_http_200_is_round", "c01_http_200_from_watcher", "c01_http_200_partial",
    "c01_http_empty200_counterexample", "c01_http_wrong_round_counterexample", "c01_http_latest",
    "tie_block_guards", "tie_unexpected_round", "tie_unexpected_payload", "tie_public_rand_decision", "tie_after_waiting",
    "tie_recv_branch", "tie_variant", "tie_notify_region", "tie_fail_region", "tie_eval_regions", "tie_cancel_branch", "tie_waiter_channel"]]
TRUSTED = ["Lean 4 kernel; axioms per theorem under coverage.axioms",
           "cryptography is an oracle record (VerifyPartial, VerifyRecovered, Recover, SignPartial, the digest hash, sha256): the theorems hold for every oracle; "
           "explicit hypotheses: KeyConst (every polynomial the vault is switched to commits to the chain key — C07), CollisionFreeOn (only for c01_digest_binds)",
           "the store stack is the model of C02 (appendStore→schemeStore→sorted map; bbolt/memdb refine the map: C18)",
           "go2lean extractor tools/go2lean/beacon.go: digest layouts of the 5 schemes, VerifyBeacon/RandomnessFromSignature shapes, statement skeletons of "
           "ProcessPartialBeacon, runAggregator, tryAppend, tryNode, callbackStore.Put, PublicRand (tied by rfl/decide)",
           "harness engine 'agg': a real beacon.Handler (node 0 of a real group, real shares of a real polynomial, 5 schemes, trimmed bolt / memdb behind a logging wrapper, "
           "fake clock, in-memory ProtocolClient), real SyncManager.tryNode, beacon.SyncChain, core.BeaconProcess.PublicRand / PublicRandStream and core.Proxy(…).Get through export shims; "
           "packets are labelled with the real verifier's answers computed independently of the node; Go goroutine/channel semantics are modelled as explicit events",
           "kyber (tBLS verification, Recover), not verified",
           "HTTP interface: the waiter / watch logic of handler/http/server.go is the small-step model Drand/Http/Waiters.lean (goroutines = explicit events, "
           "sync.RWMutex = a holder field, chan []byte of capacity 1 = Option; Go scheduler, mutex and channel semantics are modelled, not verified); the watch stream and the "
           "client's answers are universally quantified; 'the client answers Get(r) with round r' is the explicit hypothesis GetExact of c01_http_200_is_round (for the node's own "
           "client it is c01_exact_round + drandProxy.Get); go2lean extractor tools/go2lean/httpw.go (guard expressions translated, lock regions and select branches as statement text, tied by rfl/decide); "
           "harness engine 'httpw': the real DrandHandler (instrumented mux, ServeHTTP via httptest) with a scripted fake client.Client, one child process per script; in-package export shim "
           "harness/export/handler/http/zz_verif_export.go (TryRLock reads of latestRound / pending, a gate channel registered in front of the waiters to hold the watcher inside its loop); "
           "HTTP caching headers, TLS and the REST listener are not modelled (the listener is exercised by C14's dispatch engine)"]
ASSUMPTIONS = ["reshares keep the distributed public key (KeyConst; C07)",
               "every write of the node goes through the callback store of newChainStore (aggregator, tryNode); the repair path (CorrectPastBeacons) is C10's"]


def gen_all(rng, tier):
    seqs = []
    per = 1 if tier == "quick" else 10
    blocks = 22 if tier == "quick" else 45
    k = 0
    for sch in agg.SCHEMES:
        for (n, t) in agg.CONFIGS:
            for j in range(per):
                for backend in ("bolt", "mem"):
                    r = rng.fork(f"c01/{sch}/{n}/{t}/{backend}/{j}")
                    seqs.append(agg.gen_c01(r, sch, n, t, backend, blocks, r.below(1000)))
                    k += 1
    return seqs


def load_corpus():
    out = []
    for f in sorted(glob.glob(os.path.join(core.VERIF, "corpus", ID, "*.json"))):
        c = json.load(open(f))
        out.append(agg.Seq(c["ops"], {"corpus": os.path.basename(f), "scheme": c["ops"][0].split()[1]}))
    return out


def signature(code, s, i):
    return f"agg|{code}|{s.ops[i].split()[0]}"


CODES = {"stuck", "labels", "put-invalid", "served-invalid", "randomness", "wrong-round", "served-not-stored", "latest-not-head",
         "stream-earlier-round", "own-partial", "other"}


def evaluate(seqs, res, stats, check_model=True, codes=None):
    """property oracle over every sequence first (a failing input beats a divergence), then the model diff;
    returns True if a violation was reported"""
    codes = codes or CODES
    for s in seqs:
        if s.flaky:
            stats["flaky"] += 1
            stats.setdefault("flaky_examples", []).append(s.why_skip)
    for s in seqs:
        if s.flaky or not s.impl:
            continue
        o = agg.oracle(s, codes)
        if o:
            code, why, i = o
            def same(t, code=code):
                r = agg.oracle(t, codes)
                return r is not None and r[0] == code
            if not agg.confirm(s, same):
                stats["unconfirmed"] += 1
                continue
            ops = agg.shrink(s.ops[:i + 1], lambda ops: same(agg.rerun(ops)))
            t = agg.rerun(ops)
            r = agg.oracle(t, codes)
            res.report(signature(code, t, r[2]), {"engine": "agg", "kind": "impl-violates", "ops": ops,
                                                  "observed": [agg.split(x)[0] for x in t.impl], "oracle": r[1],
                                                  "labels": [agg.split(x)[1] for x in t.impl]})
            return True
    if not check_model:
        return False
    for s in seqs:
        if s.flaky or s.model is None:
            continue
        d = agg.diff(s)
        if d is None:
            stats["validated"] += 1
            continue
        def diverges(t):
            agg.run_model([t])
            return agg.oracle(t, codes) is None and agg.diff(t) is not None
        if not agg.confirm(s, diverges):
            stats["unconfirmed"] += 1
            continue
        ops = agg.shrink(s.ops[:d + 1], lambda ops: diverges(agg.rerun(ops)), budget=40)
        t = agg.rerun(ops)
        agg.run_model([t])
        j = agg.diff(t)
        res.add_violation({"engine": "agg", "kind": "model-impl-diverge", "ops": ops,
                           "observed": [agg.split(x)[0] for x in t.impl][j:j + 1] if j is not None else [],
                           "expected": t.model[j:j + 1] if j is not None else [],
                           "note": "the real node and the Lean node model answer differently; the property oracle accepts the implementation's answers on this sequence"},
                          found=False)
        return True
    return False


def summarise(seqs, res, stats, rule):
    total = sum(len(s.ops) for s in seqs)
    nontriv = set()
    dist = {"ops": {}, "answers": {}, "puts_by_path": {"aggregation": 0, "sync": 0}, "schemes": {}, "configs": {}, "packet_kinds": {}}
    for s in seqs:
        if not s.impl:
            continue
        had_put = False
        for op, out in zip(s.ops, s.impl):
            k = op.split()[0]
            dist["ops"][k] = dist["ops"].get(k, 0) + 1
            left = agg.split(out)[0]
            a = left.split()[0] if left else "-"
            if ":" in a:
                a = "beacon(s)"
            dist["answers"][a] = dist["answers"].get(a, 0) + 1
            ps = [p for p in agg.parse_items(agg.rfield(left, "puts") or "-") if p[0] >= 1]
            if ps:
                had_put = True
                dist["puts_by_path"]["aggregation" if k in ("deliver", "replay", "own") else "sync"] += len(ps)
        if had_put:
            nontriv.add(tuple(s.ops))
        m = s.meta
        if "scheme" in m:
            dist["schemes"][m["scheme"]] = dist["schemes"].get(m["scheme"], 0) + 1
        if "n" in m:
            key = f"n={m['n']},t={m['t']},{m.get('backend')}"
            dist["configs"][key] = dist["configs"].get(key, 0) + 1
        for kk, v in m.get("kinds", {}).items():
            dist["packet_kinds"][kk] = dist["packet_kinds"].get(kk, 0) + v
    dist["nondeterministic_sequences_skipped"] = stats["flaky"]
    dist["unconfirmed_on_rerun"] = stats["unconfirmed"]
    if stats.get("flaky_examples"):
        dist["nondeterministic_examples"] = stats["flaky_examples"][:3]
    hw = res.cov.get("http_waiters", {})
    res.cov.update(evaluations=total + hw.get("evaluations", 0), distinct_nontrivial=len(nontriv) + hw.get("distinct_nontrivial", 0),
                   traces_validated_against_impl=stats["validated"] + hw.get("traces_validated_against_impl", 0), rule=rule, distribution=dist)
    sm = []
    for s in seqs[:3]:
        if s.impl:
            sm.append({"ops": s.ops[:8], "impl": [x[:160] for x in s.impl[:8]]})
    res.cov["samples"] = sm


def replay_http(ctx, res, c):
    """./check C01 --replay f for a replay file of engine httpw"""
    s = httpw.Script(c["ops"], {"kind": "replay"})
    httpw.run_impl([s], workers=1, timeout=300)
    res.cov.update(evaluations=len(s.ops), rule="replay of " + ctx["replay"], samples=[{"ops": s.ops, "impl": s.impl}])
    hit = httpw.oracle_c01(s)
    if hit:
        i, code, why, sig = hit
        res.report(sig, {"engine": "httpw", "kind": "impl-violates", "ops": s.ops[: i + 1], "observed": s.impl[: i + 1], "oracle": why})


def explore(ctx, res):
    rng = ctx["rng"]
    tier = "thorough" if ctx["deep"] else ctx["tier"]
    stats = {"flaky": 0, "unconfirmed": 0, "validated": 0}
    if ctx.get("replay"):
        c = json.load(open(ctx["replay"]))
        if c.get("engine") == "httpw":
            return replay_http(ctx, res, c)
        seqs = [agg.Seq(c["ops"], {})]
    else:
        # the public HTTP interface first (seconds): waiter / watch logic of handler/http on the real handler
        httpw.explore_http(ctx, res, ID)
        if any(f for _, f in res.violations) and ctx["deep"]:
            return
        seqs = load_corpus() + gen_all(rng, tier)
    agg.run_impl(seqs)
    if ctx["model_ok"]:
        agg.run_model(seqs)
    evaluate(seqs, res, stats, ctx["model_ok"])
    summarise(seqs, res, stats,
              "per scheme (5) × (n,t) ∈ {(1,1),(3,2),(4,3),(5,3),(7,4)} × base store (trimmed bolt / memdb): random block sequences — a round by partials "
              "(subset of size t−1/t/t+1/all, own partial included or not, random order, forged partials interleaved), sync Put, scripted tryNode streams "
              "(valid, bit-flipped, other round's signature, foreign beacon id, nil metadata, junk previous signature, out of order), reads (Get, Last, cursor scan, "
              "PublicRand, proxy Get, SyncChain / PublicRandStream with a Put while live), vault switches (reshared polynomial, member removed, swapped identities, "
              "threshold below the polynomial's), forged partials (wrong share, wrong round, wrong previous signature claimed/signed, non-member index, own share, "
              "truncated, bit-flipped body/index, replay, past, future, old polynomial); every sequence is run twice and used only if both transcripts agree; "
              "evaluations = op lines; non-trivial = distinct sequence with at least one base-store Put of round ≥ 1")
