"""C06, echo-broadcast part: scripts for the `bcast` engine (k real echoBroadcast instances wired by a scripted client),
the property oracle evaluated directly on the implementation's transcript, and the comparison with the Lean model
(lean/Drand/DKG/Broadcast.lean through `vdriver bcast`)."""
import os
from concurrent.futures import ThreadPoolExecutor
from . import core

KINDS = ["deal", "resp", "just"]


# ---------------------------------------------------------------------------------------------- scripts

def _tail(k):
    return ["heal"] + [f"drain {i}" for i in range(k)]


def _plan(k, o, cut):
    return ",".join(f"{d}:{'cut' if d in cut else 'ok'}" for d in range(k) if d != o)


def script_relay(scheme, k, o, v, kind, seed, ctxend=True):
    """originator o cannot reach v (one-way link failure while it sends its bundle); everybody's request context has
    ended before the first bundle flows, as over gRPC; the relay through the other nodes is the only path to v"""
    s = [f"net {scheme} {k} {seed}"]
    if ctxend:
        s += [f"ctxend {i}" for i in range(k)]
    s += [f"mk b {kind} {o} good", f"push {o} b {_plan(k, o, {v})}"]
    return s + _tail(k)


def script_forged(scheme, k, o, v, kind, variant, seed, cut_direct=False):
    """a copy of o's bundle that does not verify reaches v before the genuine bundle does"""
    s = [f"net {scheme} {k} {seed}"] + [f"ctxend {i}" for i in range(k)]
    s.append(f"mk b {kind} {o} good")
    third = [x for x in range(k) if x not in (o, v)][0]
    bad = {"badsig": "badsig:b", "othersig": f"othersig:b:{third}", "othersig-self": f"othersig:b:{v}"}[variant]
    s += [f"mk bx {kind} {o} {bad}", f"inject {v} bx", f"inject {v} bx"]
    s.append(f"push {o} b {_plan(k, o, {v} if cut_direct else set())}")
    return s + _tail(k)


def script_random(rng, scheme, k, seed, n_ops):
    s = [f"net {scheme} {k} {seed}"]
    names, pushed, made = [], set(), {}
    per_kind = {kd: 0 for kd in KINDS}
    stopped = set()
    ended = set()
    for _ in range(n_ops):
        r = rng.below(100)
        if r < 22 and len(names) < 2 * k:
            kd = rng.choice(KINDS)
            signer = rng.below(k)
            if per_kind[kd] >= k - 1:        # keep every application channel below its capacity (= k)
                continue
            per_kind[kd] += 1
            nm = f"b{len(names)}"
            names.append(nm)
            made[nm] = (kd, signer)
            s.append(f"mk {nm} {kd} {signer} good")
        elif r < 40 and names:
            cand = [n for n in names if n not in pushed]
            if not cand:
                continue
            nm = rng.choice(cand)
            kd, signer = made[nm]
            if signer in stopped:
                continue
            pushed.add(nm)
            cut = {d for d in range(k) if d != signer and rng.chance(1, 3)}
            s.append(f"push {signer} {nm} {_plan(k, signer, cut)}")
        elif r < 52 and names:
            nm = rng.choice(names)
            kd, signer = made[nm]
            var = rng.choice(["badsig:" + nm, f"othersig:{nm}:{(signer + 1) % k}"])
            s.append(f"mk {nm}x{len(s)} {kd} {signer} {var}")
            s.append(f"inject {rng.below(k)} {nm}x{len(s) - 1}")
        elif r < 58 and names:
            # somebody hands a genuine bundle to a node directly (a duplicate, or ahead of the originator's own send)
            nm = rng.choice([n for n in names if n in pushed] or names)
            if nm in pushed:
                s.append(f"inject {rng.below(k)} {nm}")
        elif r < 62:
            kd = rng.choice(["deal", "just"])
            s.append(f"mk u{len(s)} {kd} {rng.below(k)} {rng.choice(['undec', 'badidx'])}")
            s.append(f"inject {rng.below(k)} u{len(s) - 1}")
        elif r < 86:
            a = rng.below(k)
            b = rng.choice([x for x in range(k) if x != a])
            s.append(f"relay {a} {b} {'cut' if rng.chance(1, 4) else 'ok'}")
        elif r < 93:
            i = rng.below(k)
            if i not in ended:
                ended.add(i)
                s.append(f"ctxend {i}")
        else:
            s.append(f"take {rng.below(k)} {rng.choice(KINDS)}")
    return s + _tail(k)


def script_overflow(scheme, seed):
    """two participants (queues of 6 + the packet the worker holds): node 1 signs eight distinct bundles, then an honest
    ninth follows: relays are dropped on the full queue, the response channel (capacity 2) overflows too. No agreement
    is expected here (c06_bcast_overflow_counterexample); the run compares model and implementation and checks validity."""
    s = [f"net {scheme} 2 {seed}"]
    for j in range(9):
        s += [f"mk r{j} resp 1 good", f"inject 0 r{j}"]
    return s + ["relay 0 1 ok", "relay 0 1 cut"] + _tail(2)


def script_stop(scheme, seed):
    s = [f"net {scheme} 3 {seed}", "mk a deal 0 good", "mk b deal 1 good", "mk c resp 2 good", "push 0 a 1:ok,2:ok", "stop 1",
         "relay 1 2 ok", "push 1 b 0:ok,2:ok", "inject 1 c", "inject 1 c", "push 2 c 0:ok,1:ok", "relay 2 0 ok"]
    return s + _tail(3)


def gen_scripts(ctx, tier):
    rng = ctx["rng"].fork("bcast")
    schemes = ["pedersen-bls-chained", "bls-unchained-on-g1", "bls-bn254-unchained-on-g1"]
    sch = schemes[ctx["seed"] % 3]
    out = []
    sd = lambda: rng.next() % 10**9
    # the relay is the only path (k = 3: every originator / victim pair; k = 4: a sample), every kind of bundle
    j = 0
    for o in range(3):
        for v in range(3):
            if o != v:
                out.append((f"relay-3-{o}-{v}", "agree", script_relay(sch, 3, o, v, KINDS[j % 3], sd())))
                j += 1
    for o, v in ((0, 3), (2, 1), (3, 0)):
        out.append((f"relay-4-{o}-{v}", "agree", script_relay(schemes[(ctx["seed"] + 1) % 3], 4, o, v, KINDS[j % 3], sd())))
        j += 1
    out.append(("relay-3-noctx", "agree", script_relay(sch, 3, 1, 2, "deal", sd(), ctxend=False)))
    # a copy that does not verify arrives first
    for n, (variant, cutd) in enumerate((("badsig", False), ("badsig", True), ("othersig", False), ("othersig-self", True))):
        o, v = [(0, 2), (1, 2), (2, 0), (1, 0)][n]
        out.append((f"forged-{variant}-{int(cutd)}", "agree", script_forged(sch, 3, o, v, KINDS[n % 3], variant, sd(), cutd)))
    out.append(("overflow", "valid-only", script_overflow(sch, sd())))
    out.append(("stop", "valid-only", script_stop(sch, sd())))
    n_rand = 30 if tier == "quick" else 600
    for i in range(n_rand):
        r = rng.fork(f"r{i}")
        k = 3 if i % 3 else 4
        out.append((f"random-{i}", "agree", script_random(r, schemes[i % 3], k, r.next() % 10**9, r.range(12, 40))))
    if tier != "quick":
        for k in (4, 5):
            for o in range(k):
                for v in range(k):
                    if o != v:
                        out.append((f"relay-{k}-{o}-{v}", "agree", script_relay(schemes[(o + v) % 3], k, o, v, KINDS[(o + v) % 3], sd())))
        for variant in ("badsig", "othersig", "othersig-self"):
            for cutd in (False, True):
                for kd in KINDS:
                    out.append((f"forged-{variant}-{int(cutd)}-{kd}", "agree", script_forged(sch, 4, 1, 3, kd, variant, sd(), cutd)))
    return out


# ---------------------------------------------------------------------------------------------- running

def run_batch(scripts, model_ok):
    """scripts: [(name, family, lines)] → [(name, family, lines, mops, impl, model|None)]"""
    h = os.path.join(core.BUILD, "verifh")
    d = os.path.join(core.LEAN, ".lake", "build", "bin", "vdriver")
    lines = [l for _, _, ls in scripts for l in ls]
    rc, outl, err = core.run_lines(h, ["bcast"], lines, timeout=900)
    if rc != 0 or len(outl) != len(lines):
        raise core.Broken("harness:bcast", f"exit {rc}, {len(outl)}/{len(lines)} lines: {err[-1500:]}")
    rows = [l.split("\t") for l in outl]
    if any(len(r) != 3 for r in rows):
        raise core.Broken("harness:bcast", "malformed result line")
    mops, impl = [r[1] for r in rows], [r[2] for r in rows]
    model = None
    if model_ok:
        rc, model, err = core.run_lines(d, ["bcast"], mops)
        if rc != 0 or len(model) != len(mops):
            raise core.Broken("model:bcast", f"exit {rc}: {err[-1000:]}")
    out, p = [], 0
    for name, fam, ls in scripts:
        n = len(ls)
        out.append((name, fam, ls, mops[p:p + n], impl[p:p + n], model[p:p + n] if model is not None else None))
        p += n
    return out


def run_all(scripts, model_ok, workers=6):
    chunks = [scripts[i::workers] for i in range(workers) if scripts[i::workers]]
    with ThreadPoolExecutor(max_workers=workers) as ex:
        parts = list(ex.map(lambda c: run_batch(c, model_ok), chunks))
    return [x for p in parts for x in p]


# ---------------------------------------------------------------------------------------------- the oracle

def oracle(lines, impl, family):
    """The property, read off the implementation's own answers (no model involved).
    (a) a node's application is never handed the same bundle twice; (b) never a bundle whose signature does not verify;
    (c) if some node's application was handed a valid bundle and another node's was not, then every transmission of it
        between the two was seen to fail (link cut) — otherwise it was never sent, or it was delivered and swallowed.
    Returns (signature, why) or None."""
    k = 0
    valid = {}           # hash id -> some packet with that hash is genuine (decodes, index known, signature valid)
    handed = {}          # node -> [(hid, 'v'|'x')]
    stopped = set()
    sent = {}            # (i, d, hid) -> [result]
    for op, res in zip(lines, impl):
        f = op.split()
        body = res.split(" |")[0]
        if body.startswith("panic"):
            return ("panic", f"{op}: {body[:200]}")
        if f[0] == "net":
            k = int(f[2])
            handed = {i: [] for i in range(k)}
        elif f[0] == "mk":
            hid, kd, dec, idx, sig = body.split()[1].split(":")
            valid[int(hid)] = valid.get(int(hid), False) or (dec == idx == sig == "1")
            if f[4] == "good" and not (dec == idx == sig == "1"):
                return ("harness", f"{op}: a genuine bundle does not verify: {body}")
        elif f[0] == "stop":
            stopped.add(int(f[1]))
        elif f[0] == "push":
            if body.startswith("blocked"):
                continue
            o = int(f[1])
            d = body.split("directs=")[1].strip()
            hid = None
            # the hash id of the pushed bundle: from the last mk of that name
            for op2, res2 in zip(lines, impl):
                g = op2.split()
                if g[0] == "mk" and g[1] == f[2]:
                    hid = int(res2.split()[1].split(":")[0])
            if d != "-":
                for t in d.split(","):
                    dst, r = t.split(":")
                    sent.setdefault((o, int(dst), hid), []).append(r)
        elif f[0] == "relay":
            w = body.split()
            if w[0] == "sent":
                sent.setdefault((int(f[1]), int(f[2]), int(w[1])), []).append(w[2])
            elif w[0] == "cut":
                sent.setdefault((int(f[1]), int(f[2]), int(w[1])), []).append("cut")
        elif f[0] == "heal":
            w = body.split()
            if len(w) > 1 and w[1] != "-":
                for t in w[1].split(","):
                    ab, hid, r = t.split(":")
                    a, b = ab.split(">")
                    sent.setdefault((int(a), int(b), int(hid)), []).append(r)
        elif f[0] in ("take", "drain"):
            i = int(f[1])
            toks = []
            if f[0] == "take":
                if body.strip() != "none":
                    toks = [body.strip()]
            else:
                for part in body.split():
                    v = part.split("=", 1)[1]
                    if v != "-":
                        toks += v.split(",")
            for t in toks:
                hid, lab = t.split(":")
                handed[i].append((int(hid), lab))
    for i, l in handed.items():
        for hid, lab in l:
            if lab != "v" or not valid.get(hid, False):
                return ("invalid-bundle-handed-to-application", f"node {i}'s application was handed bundle #{hid} whose signature does not verify")
        ids = [h for h, _ in l]
        if i not in stopped and len(set(ids)) != len(ids):
            dup = sorted({h for h in ids if ids.count(h) > 1})
            return ("bundle-handed-twice", f"node {i}'s application was handed bundle(s) {dup} more than once")
    if family != "agree":
        return None
    for hid, ok in sorted(valid.items()):
        if not ok:
            continue
        have = {i for i, l in handed.items() if hid in [h for h, _ in l]}
        for i in sorted(have):
            for d in range(k):
                if d in have or d in stopped or i in stopped or d == i:
                    continue
                rs = sent.get((i, d, hid), [])
                if not rs:
                    return ("relay-never-sent", f"node {i} handed bundle #{hid} to its application; node {d} never got it, and node {i} never "
                            f"sent it to node {d} although every waiting send was released at the end (its relay worker is not running)")
                if any(r == "nil" for r in rs):
                    return ("delivered-but-swallowed", f"bundle #{hid} (valid) was delivered from node {i} to node {d}, which answered without an "
                            f"error, but node {d}'s application never got it")
                if any(r == "err" for r in rs):
                    return ("valid-bundle-refused", f"node {d} refused the valid bundle #{hid} sent by node {i}")
                # every attempt was cut: a link failure, allowed
    return None


def shrink(lines, family, sig):
    """drop ops (never the `net`, `mk`, `heal`, `drain` lines) while the same failure remains"""
    h = os.path.join(core.BUILD, "verifh")
    keep = lambda l: l.split()[0] in ("net", "mk", "heal", "drain")

    def fails(ls):
        rc, outl, _ = core.run_lines(h, ["bcast"], ls, timeout=120)
        if rc != 0 or len(outl) != len(ls):
            return False
        v = oracle(ls, [r.split("\t")[2] for r in outl], family)
        return v is not None and v[0] == sig
    cur = list(lines)
    changed = True
    while changed:
        changed = False
        for i in range(len(cur)):
            if keep(cur[i]):
                continue
            cand = cur[:i] + cur[i + 1:]
            if fails(cand):
                cur, changed = cand, True
                break
    # unused packets
    used = {w for l in cur if l.split()[0] in ("push", "inject") for w in l.split()[2:3]}
    bases = {l.split()[4].split(":")[1] for l in cur if l.split()[0] == "mk" and ":" in l.split()[4]}
    cand = [l for l in cur if not (l.split()[0] == "mk" and l.split()[1] not in used and l.split()[1] not in bases)]
    if cand != cur and fails(cand):
        cur = cand
    return cur


def explore(ctx, res, tier, acc):
    """runs the bcast scripts; adds violations to res; fills acc (dict) with coverage"""
    scripts = gen_scripts(ctx, tier)
    runs = run_all(scripts, ctx["model_ok"])
    seen_sigs = set()
    diverged = None
    dist = acc.setdefault("bcast", {"scripts": 0, "ops": 0, "validated": 0, "families": {}, "op_kinds": {}, "handed": 0, "cut_sends": 0,
                                    "delivered_sends": 0, "refused_injects": 0})
    for name, fam, lines, mops, impl, model in runs:
        dist["scripts"] += 1
        dist["ops"] += len(lines)
        dist["families"][name.split("-")[0]] = dist["families"].get(name.split("-")[0], 0) + 1
        for l, r in zip(lines, impl):
            kd = l.split()[0]
            dist["op_kinds"][kd] = dist["op_kinds"].get(kd, 0) + 1
            b = r.split(" |")[0]
            dist["cut_sends"] += b.count("cut")
            dist["delivered_sends"] += b.count(":nil") + (1 if b.startswith("sent") and b.endswith("nil") else 0)
            if kd == "inject" and b.startswith("err"):
                dist["refused_injects"] += 1
            if kd in ("drain", "take"):
                dist["handed"] += b.count(":v")
        v = oracle(lines, impl, fam)
        if v:
            sig, why = v
            if sig in seen_sigs:
                continue
            seen_sigs.add(sig)
            small = shrink(lines, fam, sig)
            rc, outl, _ = core.run_lines(os.path.join(core.BUILD, "verifh"), ["bcast"], small, timeout=120)
            obs = [r.split("\t")[2] for r in outl] if rc == 0 else []
            v2 = oracle(small, obs, fam) if obs else None
            res.report("bcast:" + sig, {"engine": "bcast", "kind": "impl-violates", "script": name, "ops": small, "observed": obs,
                                         "oracle": v2[1] if (v2 and v2[0] == sig) else why})
            continue
        if model is not None:
            if model != impl:
                if diverged is None:
                    j = core.first_diff(impl, model)
                    diverged = {"engine": "bcast", "kind": "model-impl-diverge", "script": name, "ops": lines[:j + 1], "model_ops": mops[:j + 1],
                                "observed": impl[j:j + 1], "expected": model[j:j + 1],
                                "note": "correspondence 'bcast' (echoBroadcast vs. lean/Drand/DKG/Broadcast.lean) no longer checks; the C06 broadcast "
                                        "oracle accepts the implementation's answers on every script explored"}
            else:
                dist["validated"] += 1
                acc.setdefault("nontriv", set()).add(("bcast", tuple(lines)))
    if diverged is not None and not any(f for _, f in res.violations):
        res.add_violation(diverged, found=False)
    return dist
