"""Shared machinery of the `agg` engine (C01, C03): run op sequences through the real beacon.Handler harness
(twice: only identical transcripts are trusted), turn the harness's labelled answers into model input, run the
Lean node model, evaluate the property oracles directly on the implementation's answers."""
import hashlib, os
from concurrent.futures import ThreadPoolExecutor
from . import core

SCHEMES = ["pedersen-bls-chained", "pedersen-bls-unchained", "bls-unchained-g1-rfc9380", "bls-unchained-on-g1",
           "bls-bn254-unchained-on-g1"]
CONFIGS = [(1, 1), (3, 2), (4, 3), (5, 3), (7, 4)]
JOBS = 14


def H():
    return os.path.join(core.BUILD, "verifh")


def D():
    return os.path.join(core.LEAN, ".lake", "build", "bin", "vdriver")


class Seq:
    """one op sequence: ops[0] is the init line; meta carries generator bookkeeping for the oracles"""
    def __init__(self, ops, meta=None):
        self.ops = list(ops)
        self.meta = meta or {}
        self.impl = None      # harness result lines
        self.model = None     # model result lines
        self.flaky = False
        self.why_skip = None


def popcount(x):
    return bin(x).count("1")


def split(line):
    left, _, right = line.partition(" | ")
    return left, right


def rfield(right, key):
    for t in right.split():
        if t.startswith(key + "="):
            return t[len(key) + 1:]
    return None


def model_line(op, out, st):
    """translate a harness op + its labelled answer into the model's op line; st: per-sequence translation state"""
    f = op.split()
    left, right = split(out)
    rt = right.split()
    if left.startswith("bad-op"):
        return "badop"
    if f[0] == "init":
        n, thr = int(f[2]), int(f[3])
        specs = [f"{thr}:{thr}:{(1 << n) - 1:x}:0"] + f[7:]
        gs = []
        for k, sp in enumerate(specs):
            q = sp.split(":")
            mask = int(q[2], 16)
            gs.append(f"{q[0]}:{popcount(mask)}:{q[2]}:{q[3]}:0:{k}:{q[1]}")
        st["n"] = n
        return f"init {rfield(right, 'chained')} {rfield(right, 'sigLen')} {f[5]} {n} " + " ".join(gs)
    if f[0] in ("deliver", "replay"):
        i = rt.index("pkt")
        return f"deliver {rt[i + 1]} {rt[i + 2]} {rt[i + 3]} {rfield(right, 'vp')} {rfield(right, 'gs')}"
    if f[0] == "own" and "pkt" not in rt:
        return f"own {f[1]} none"
    if f[0] == "own":
        i = rt.index("pkt")
        return f"own {f[1]} {rt[i + 1]} {rt[i + 2]} {rt[i + 3]} {rfield(right, 'vp')} {rfield(right, 'gs')}"
    if f[0] == "syncput":
        i = rt.index("b")
        return f"syncput {rt[i + 1]} {rt[i + 2]} {rt[i + 3]} {rfield(right, 'vb')} {rfield(right, 'gs')}"
    if f[0] == "trynode":
        i = rt.index("pk")
        return f"trynode {f[1]} " + " ".join(rt[i + 1:])
    if f[0] == "serve":
        if "b" in rt:
            i = rt.index("b")
            return f"serve {f[1]} {f[2]} {rt[i + 1]} {rt[i + 2]} {rt[i + 3]} {rfield(right, 'vb')} {rfield(right, 'gs')}"
        return f"serve {f[1]} {f[2]}"
    return op


def _run_chunk(binary, args, lines):
    rc, out, err = core.run_lines(binary, args, lines, timeout=1500, env=dict(os.environ, GOMEMLIMIT="4GiB", GOMAXPROCS="2"))
    return rc, out, err


def run_impl(seqs, twice=True):
    """fills s.impl for every sequence; sequences whose two runs differ are marked flaky"""
    if not seqs:
        return
    nchunks = max(1, min(len(seqs), JOBS * 2))
    chunks = [seqs[i::nchunks] for i in range(nchunks)]
    def job(ch):
        lines = [l for s in ch for l in s.ops]
        return _run_chunk(H(), ["agg"], lines)
    with ThreadPoolExecutor(max_workers=JOBS) as ex:
        futs = [(ch, ex.submit(job, ch), ex.submit(job, ch) if twice else None) for ch in chunks]
        for ch, fa, fb in futs:
            rc, out, err = fa.result()
            if rc != 0:
                raise core.Broken("harness:agg", f"exit {rc}: {err[-1500:]}")
            outb = out
            if fb is not None:
                rcb, outb, errb = fb.result()
                if rcb != 0:
                    raise core.Broken("harness:agg", f"exit {rcb}: {errb[-1500:]}")
            i = 0
            for s in ch:
                s.impl = out[i:i + len(s.ops)]
                b = outb[i:i + len(s.ops)]
                if len(s.impl) != len(s.ops):
                    raise core.Broken("harness:agg", "short transcript")
                if b != s.impl:
                    s.flaky = True
                    j = next((k for k, (x, y) in enumerate(zip(s.impl, b)) if x != y), None)
                    s.why_skip = None if j is None else {"op": s.ops[j], "run1": s.impl[j][:300], "run2": b[j][:300]}
                i += len(s.ops)


def run_model(seqs):
    todo = [s for s in seqs if not s.flaky and s.impl and not any(o.startswith("panic") for o in s.impl)]
    if not todo:
        return
    nchunks = max(1, min(len(todo), JOBS))
    chunks = [todo[i::nchunks] for i in range(nchunks)]
    def job(ch):
        lines = []
        for s in ch:
            st = {}
            for op, out in zip(s.ops, s.impl):
                lines.append(model_line(op, out, st))
        return _run_chunk(D(), ["agg"], lines)
    with ThreadPoolExecutor(max_workers=JOBS) as ex:
        futs = [(ch, ex.submit(job, ch)) for ch in chunks]
        for ch, fu in futs:
            rc, out, err = fu.result()
            if rc != 0:
                raise core.Broken("model:agg", f"exit {rc}: {err[-1500:]}")
            i = 0
            for s in ch:
                s.model = out[i:i + len(s.ops)]
                i += len(s.ops)


def diff(s):
    """index of the first op where the model's answer differs from the left part of the implementation's"""
    if s.model is None:
        return None
    for i, (o, m) in enumerate(zip(s.impl, s.model)):
        if split(o)[0] != m:
            return i
    return None


# ---------------------------------------------------------------------------------------------------------
# oracles on the implementation's own answers

def parse_items(txt):
    """'r:sig:prev,r:sig:prev' → [(r, sig, prev)]"""
    if txt in ("-", "", None):
        return []
    out = []
    for t in txt.split(","):
        q = t.split(":")
        out.append((int(q[0]), q[1], q[2]))
    return out


def sha256_hex(h):
    return hashlib.sha256(b"" if h == "-" else bytes.fromhex(h)).hexdigest()


class Tracker:
    """replays what the harness delivered, from its labels: which valid member partials were delivered for which
    (round, prev), which group is live, what is stored"""
    def __init__(self, init_op):
        f = init_op.split()
        self.n, self.thr0 = int(f[2]), int(f[3])
        specs = [f"{self.thr0}:{self.thr0}:{(1 << self.n) - 1:x}:0"] + f[7:]
        self.groups = []
        for sp in specs:
            q = sp.split(":")
            self.groups.append({"thr": int(q[0]), "pthr": int(q[1]), "mask": int(q[2], 16), "swap": q[3] == "1"})
        self.live = 0
        self.delivered = {}   # (round, prev) -> {idx: set of group ids under which a delivered partial of idx verifies}
        self.stored = {}      # round -> (sig, prev)
        self.head = 0

    def note_packet(self, right, own=False):
        rt = right.split()
        i = rt.index("pkt")
        rnd, prev = int(rt[i + 1]), rt[i + 2]
        idx = int(rfield(right, "idx"))
        vp = rfield(right, "vp")
        return rnd, prev, idx, vp


def oracle(s, allowed=None):
    """C01 + C03 evaluated on the implementation's answers of one sequence. Returns (code, why, op index) or None."""
    for why, i in _oracle(s):
        code = code_of(why)
        if allowed is None or code in allowed:
            return (code, why, i)
    return None


CODES = [("got stuck or crashed", "stuck"), ("the partial the node broadcast", "own-partial"), ("base store Put", "put-invalid"), ("labelling inconsistent", "labels"),
         ("aggregation stored round", "agg-wrong-round"), ("created by aggregation after only", "below-threshold"), ("accepted a partial that", "invalid-accepted"),
         ("does not verify under the group key", "served-invalid"), ("is not sha256", "randomness"), ("without randomness", "randomness"),
         ("asked for round", "wrong-round"), ("returned the beacon of round", "wrong-round"), ("never stored", "served-not-stored"),
         ("latest is round", "latest-not-head"), ("sent an earlier round", "stream-earlier-round")]


def code_of(why):
    for sub, code in CODES:
        if sub in why:
            return code
    return "other"


def _oracle(s):
    tr = Tracker(s.ops[0])
    for i, (op, out) in enumerate(zip(s.ops, s.impl)):
        f = op.split()
        left, right = split(out)
        if left.startswith("panic") or left.startswith("err:") or left == "bad-op":
            if left == "bad-op" or "index out of range" in left:
                continue   # a malformed generator line, not the node
            yield (f"the node under test got stuck or crashed: {left}", i)
            return
        lt = left.split()
        puts = parse_items((rfield(left, "puts") or "-"))
        pv = (rfield(right, "pv") or "-").split(",")
        # --- C01: every base Put of round >= 1 verifies under the group key
        for (r, sig, prev), ok in zip(puts, pv):
            if r >= 1 and ok != "1":
                yield (f"base store Put of round {r} with a signature that does not verify under the group key (scheme.VerifyBeacon)", i)
        # --- label sanity: a beacon verifies iff its signature is the group signature of its digest
        if f[0] in ("syncput",) or (f[0] == "serve" and " b " in " " + right + " "):
            rt = right.split()
            j = rt.index("b")
            if (rfield(right, "vb") == "1") != (rt[j + 2] == rfield(right, "gs")):
                yield ("harness labelling inconsistent: VerifyBeacon disagrees with equality to the group signature", i)
        if f[0] == "own" and "pkt" not in right.split():
            if rfield(right, "emitted") == "1":
                yield ("the partial the node broadcast although the stored head is ahead of the tick's round", i)
            for (r, sig, prev) in puts:
                tr.stored[r] = (sig, prev)
                tr.head = max(tr.head, r)
            continue
        if f[0] == "own" and rfield(right, "bcsame") == "0":
            yield ("the partial the node broadcast is not its share's signature on the digest of (head+1, head signature)", i)
        # --- C03 bookkeeping and check
        agg_op = f[0] in ("deliver", "replay", "own")
        if agg_op:
            rnd, prev, idx, vp = tr.note_packet(right)
            g = tr.groups[tr.live]
            member = 0 <= idx < tr.n and (g["mask"] >> idx) & 1 == 1
            # indices a network partial may not carry: the node's share index (0) and the index listed with its address
            ours = {0, 1} if g["swap"] else {0}
            counts = member and vp is not None and vp[tr.live] == "1" and (f[0] == "own" or idx not in ours)
            if f[0] != "own" and lt[0] == "ok" and rnd > tr.head and idx not in ours and not (member and vp is not None and vp[tr.live] == "1"):
                what = "does not verify under the live polynomial" if member else "carries an index that is not in the live group"
                yield (f"ProcessPartialBeacon accepted a partial that {what} (round {rnd}, index {idx})", i)
            if counts:
                ks = tr.delivered.setdefault((rnd, prev), {}).setdefault(idx, set())
                ks.update(k for k, ch in enumerate(vp) if ch == "1")
            new = [p for p in puts if p[0] >= 1]
            if new:
                g = tr.groups[tr.live]
                have = [j for j, ks in tr.delivered.get((rnd, prev), {}).items() if tr.live in ks]
                for (r, sig, pprev) in new:
                    if r != rnd:
                        yield (f"aggregation stored round {r} on a partial for round {rnd}", i)
                if len(have) < g["thr"]:
                    yield (f"beacon of round {rnd} created by aggregation after only {len(have)} distinct valid member partials "
                            f"for exactly (round {rnd}, prev {prev[:8]}…) — threshold is {g['thr']}", i)
        elif f[0] == "setinfo" and left.startswith("ok"):
            tr.live = int(f[1])
        for (r, sig, prev) in puts:
            tr.stored[r] = (sig, prev)
            tr.head = max(tr.head, r)
        # --- C01 read side
        def check_served(items, vbits, what, want=None, rnds=None):
            for k, (r, sig, prev) in enumerate(items):
                vb = vbits[k].split("/") if k < len(vbits) else ["?"]
                if r >= 1 and vb[0] != "1":
                    return f"{what}: served beacon of round {r} does not verify under the group key"
                if len(vb) > 1 and vb[1] not in ("-", "") and vb[1] != sha256_hex(sig):
                    return f"{what}: randomness of round {r} is not sha256(signature)"
                if want is not None and want > 0 and r != want:
                    return f"{what}: asked for round {want}, got the beacon of round {r}"
                if r in tr.stored and tr.stored[r][0] != sig:
                    return f"{what}: served round {r} with a signature that was never stored"
                if r >= 1 and r not in tr.stored:
                    return f"{what}: served round {r}, which was never stored"
            return
        if f[0] in ("get", "last", "pubrand", "proxyget") and ":" in lt[0]:
            items = parse_items(lt[0])
            v = rfield(right, "v") or "?"
            rnd_hex = rfield(right, "rnd")
            vb = [v + ("/" + rnd_hex if rnd_hex and f[0] == "proxyget" else "")]
            want = int(f[1]) if f[0] != "last" else None
            if f[0] == "get" and items[0][0] != want:
                yield (f"get {want} returned the beacon of round {items[0][0]}", i)
            why = check_served(items, vb, f[0], want)
            if why:
                yield (why, i)
            if f[0] == "proxyget" and (not rnd_hex or rnd_hex == "-"):
                yield ("proxyget: response without randomness", i)
            if (f[0] == "last" or (want == 0 and f[0] != "get")) and items[0][0] != tr.head:
                yield (f"{f[0]}: latest is round {items[0][0]} but the store head is {tr.head}", i)
        if f[0] == "scan" and lt[0] != "-":
            why = check_served(parse_items(lt[0]), (rfield(right, "v") or "").split(","), "cursor scan")
            if why:
                yield (why, i)
        if f[0] == "serve" and lt[0] == "live":
            sc = parse_items(rfield(left, "scan"))
            lv = parse_items(rfield(left, "live"))
            why = check_served(sc, (rfield(right, "v") or "").split(","), "SyncChain scan") or \
                check_served(lv, (rfield(right, "lv") or "").split(","), "SyncChain live")
            if why:
                yield (why, i)
            frm = int(f[1])
            if any(r < frm for r, _, _ in sc):
                yield (f"SyncChain from {frm} sent an earlier round", i)
            if f[2] == "pub":
                for vb in (rfield(right, "v") or "-").split(",") + (rfield(right, "lv") or "-").split(","):
                    if vb != "-" and vb.endswith("/-"):
                        yield ("PublicRandStream item without randomness", i)
    return


# ---------------------------------------------------------------------------------------------------------
# shrinking

def rerun(ops, twice=False):
    s = Seq(ops)
    run_impl([s], twice=twice)
    return s


def shrink(ops, pred, budget=80):
    """remove ops (never the init line) while pred(ops) still holds"""
    cur = list(ops)
    n = 0
    step = max(1, (len(cur) - 1) // 2)
    while step >= 1 and n < budget:
        i = 1
        progressed = False
        while i < len(cur) and n < budget:
            cand = cur[:i] + cur[i + step:]
            n += 1
            if len(cand) >= 1 and pred(cand):
                cur = cand
                progressed = True
            else:
                i += step
        if step == 1 and not progressed:
            break
        step = max(1, step // 2) if step > 1 else (1 if progressed else 0)
    return cur


def confirm(s, kind_pred, times=3):
    """re-run a suspicious sequence `times` times; True iff the finding reproduces every time"""
    for _ in range(times):
        t = rerun(s.ops)
        if not kind_pred(t):
            return False
    return True


# ---------------------------------------------------------------------------------------------------------
# generators (every choice from a core.Rng)

FORGE_KINDS = ["wrongshare", "wronground", "wrongprev-claimed", "wrongprev-signed", "nonmember", "ownshare", "trunc", "flip",
               "replay", "past", "future", "oldpoly", "flipidx"]


def group_specs(n, t):
    full = (1 << n) - 1
    if n < 3:
        return []
    return [f"{t}:{t}:{full:x}:0",                       # 1: reshared polynomial, same members
            f"{t}:{t}:{full & ~(1 << (n - 1)):x}:0",     # 2: last member left
            f"{t}:{t}:{full:x}:1",                       # 3: indices 0 and 1 listed with swapped identities
            f"{t - 1}:{t}:{full:x}:0"]                   # 4: group file threshold below the polynomial's


class Gen:
    def __init__(self, rng, scheme, n, t, backend, polyseed, extra=True):
        self.rng, self.scheme, self.n, self.t = rng, scheme, n, t
        self.chained = scheme == SCHEMES[0]
        specs = group_specs(n, t) if extra else []
        full = (1 << n) - 1
        self.groups = [{"thr": t, "pthr": t, "mask": full, "swap": False}]
        for sp in specs:
            q = sp.split(":")
            self.groups.append({"thr": int(q[0]), "pthr": int(q[1]), "mask": int(q[2], 16), "swap": q[3] == "1"})
        seed = rng.choice(["aabb", "5eed00", "01"])
        self.ops = [f"init {scheme} {n} {t} {backend} {seed} {polyseed} " + " ".join(specs)]
        self.H, self.next, self.L, self.sent = 0, 2, 0, 0
        self.kinds = {}

    def note(self, k):
        self.kinds[k] = self.kinds.get(k, 0) + 1

    def others(self):
        """member indices of the live group a network partial may legitimately come from"""
        g = self.groups[self.L]
        ours = {0, 1} if g["swap"] else {0}
        return [i for i in range(self.n) if (g["mask"] >> i) & 1 and i not in ours]

    def ensure_clock(self, r):
        if self.next < r:
            self.next = r + self.rng.below(2)
            self.ops.append(f"tick {self.next}")

    def honest(self, j, R=None, P=None, L=None):
        R = self.H + 1 if R is None else R
        P = f"T{self.H}" if P is None else P
        L = self.L if L is None else L
        self.sent += 1
        self.note("honest")
        return f"deliver {j} {L} {R} {P} {R} {P} - - -"

    def forged(self, kind=None):
        rng = self.rng
        kind = kind or rng.choice(FORGE_KINDS)
        R, P, L, n = self.H + 1, f"T{self.H}", self.L, self.n
        j = rng.below(n)
        self.note(kind)
        self.sent += 1
        if kind == "wrongshare":
            i = (j + 1 + rng.below(max(1, n - 1))) % n
            return f"deliver {i} {L} {R} {P} {R} {P} {j} - -"
        if kind == "wronground":
            return f"deliver {j} {L} {R} {P} {R + 1 + rng.below(2)} {P} - - -"
        if kind == "wrongprev-claimed":
            return f"deliver {j} {L} {R} J{rng.below(3)} {R} {P} - - -"
        if kind == "wrongprev-signed":
            return f"deliver {j} {L} {R} {P} {R} J{rng.below(3)} - - -"
        if kind == "nonmember":
            return f"deliver {j} {L} {R} {P} {R} {P} {rng.choice([n, n + 3, 255, 65535])} - -"
        if kind == "ownshare":
            return f"deliver 0 {L} {R} {P} {R} {P} - - -"
        if kind == "trunc":
            return f"deliver {j} {L} {R} {P} {R} {P} - {rng.choice([0, 1, 2, 3, 20, 47, 49, 95, 97])} -"
        if kind == "flip":
            return f"deliver {j} {L} {R} {P} {R} {P} - - {16 + rng.below(700)}"
        if kind == "flipidx":
            return f"deliver {j} {L} {R} {P} {R} {P} - - {rng.below(16)}"
        if kind == "replay":
            return f"replay {rng.below(max(1, self.sent))}"
        if kind == "past":
            r = max(0, self.H - rng.below(2))
            return f"deliver {j} {L} {r} T{max(0, r - 1)} {r} T{max(0, r - 1)} - - -"
        if kind == "future":
            r = self.next + 1 + rng.below(3)
            return f"deliver {j} {L} {r} {P} {r} {P} - - -"
        if kind == "oldpoly":
            k = rng.below(len(self.groups))
            return f"deliver {j} {k} {R} {P} {R} {P} - - -"
        raise ValueError(kind)

    def round_by_partials(self, size=None, with_own=None, order=None, noise=0):
        """contributions of `size` distinct members (own included iff with_own) for round H+1, in the given or a random order"""
        rng = self.rng
        g = self.groups[self.L]
        oth = self.others()
        R = self.H + 1
        self.ensure_clock(R)
        with_own = rng.chance(1, 2) if with_own is None else with_own
        if size is None:
            size = rng.choice([g["thr"] - 1, g["thr"], g["thr"], g["thr"] + 1, len(oth) + 1])
        size = max(0, min(size, len(oth) + (1 if with_own else 0)))
        picks = rng.shuffle(oth)[:size - (1 if with_own else 0)]
        members = ([0] if with_own and size > 0 else []) + picks
        members = order if order is not None else rng.shuffle(members)
        for m in members:
            for _ in range(noise):
                if rng.chance(1, 2):
                    self.ops.append(self.forged())
            if m == 0:
                self.ops.append(f"own {R}")
                self.sent += 1
                self.note("own")
            else:
                self.ops.append(self.honest(m))
        if len(members) >= g["thr"] and g["thr"] >= g["pthr"]:
            self.H = R
            return True
        return False

    def syncput(self):
        self.ops.append(f"syncput {self.H + 1} T{self.H}")
        self.H += 1
        self.note("syncput")

    def trynode(self):
        rng = self.rng
        k = rng.range(1, 4)
        upTo = self.H + rng.range(1, k + 1)
        pk = []
        ok = True
        h = self.H
        for r in range(self.H + 1, self.H + k + 1):
            v = rng.choice(["v", "v", "v", "v", "n", f"f{rng.below(300)}", f"w{r + 1}", "x", "vx"])
            P = f"T{r - 1}" if rng.chance(5, 6) else f"J{rng.below(3)}"
            if rng.chance(1, 12):
                r = r + 1
            pk.append(f"{r}:{P}:{v}")
            good = v in ("v", "n") and (P.startswith("T") or not self.chained) and r == h + 1
            if ok and good:
                h = r
                if r == upTo:
                    ok = False
            else:
                ok = False
        self.H = h
        self.ops.append(f"trynode {upTo} " + " ".join(pk))
        self.note("trynode")

    def reads(self):
        rng = self.rng
        for _ in range(rng.range(1, 4)):
            c = rng.below(100)
            r = rng.choice([0, 1, self.H, self.H, max(0, self.H - 1), self.H + 2, self.H + 5, rng.below(self.H + 2)])
            if c < 22:
                self.ops.append(f"get {r}")
            elif c < 32:
                self.ops.append("last")
            elif c < 40:
                self.ops.append("scan")
            elif c < 58:
                self.ops.append(f"pubrand {r}")
            elif c < 76:
                self.ops.append(f"proxyget {r}")
            elif c < 79:
                self.ops.append(f"{rng.choice(['pubrand', 'proxyget'])} {self.H + 1}")
            else:
                via = rng.choice(["sync", "pub"])
                frm = rng.choice([0, 1, self.H, max(1, self.H - 2), self.H + 1, self.H + 3])
                if rng.chance(1, 2):
                    self.ops.append(f"serve {frm} {via} {self.H + 1} T{self.H}")
                    if frm <= self.H:
                        self.H += 1
                else:
                    self.ops.append(f"serve {frm} {via}")
            self.note("read")

    def setinfo(self):
        if len(self.groups) > 1:
            self.L = self.rng.below(len(self.groups))
            self.ops.append(f"setinfo {self.L}")
            self.note("setinfo")


def gen_c01(rng, scheme, n, t, backend, blocks, polyseed):
    g = Gen(rng, scheme, n, t, backend, polyseed)
    for _ in range(blocks):
        c = rng.below(100)
        if c < 38:
            g.round_by_partials(noise=rng.below(3))
        elif c < 48:
            g.syncput()
        elif c < 60:
            g.trynode()
        elif c < 80:
            g.reads()
        elif c < 86:
            g.setinfo()
        else:
            for _ in range(rng.range(1, 4)):
                g.ensure_clock(g.H + 1)
                g.ops.append(g.forged())
            if rng.chance(1, 3):
                # a late tick: the head may be ahead of (or at) the tick's round
                g.ops.append(f"own {max(0, g.H - rng.below(3))}")
                g.note("own-late-tick")
    g.ops += ["scan", "last", "proxyget 0"]
    return Seq(g.ops, {"scheme": scheme, "n": n, "t": t, "backend": backend, "kinds": g.kinds})


def permutations(xs):
    if len(xs) <= 1:
        yield list(xs)
        return
    for i in range(len(xs)):
        for p in permutations(xs[:i] + xs[i + 1:]):
            yield [xs[i]] + p


def subsets(xs, k):
    if k == 0:
        yield []
        return
    for i in range(len(xs)):
        for s in subsets(xs[i + 1:], k - 1):
            yield [xs[i]] + s


def gen_c03(rng, scheme, n, t, backend, polyseed, exhaustive, nrandom):
    """threshold scenarios: for each contributing subset S of size t-1, t, t+1 (own partial included or not) and arrival
    order, one round: deliver in that order, interleaved with forged partials from up to n-t corrupted members outside S;
    afterwards the round is closed by a sync put when the node itself did not create it"""
    g = Gen(rng, scheme, n, t, backend, polyseed, extra=False)
    members = list(range(n))
    scen = []
    if exhaustive:
        for k in (t - 1, t, t + 1):
            if k < 0 or k > n:
                continue
            for S in subsets(members, k):
                for order in permutations(S):
                    scen.append(order)
    else:
        for _ in range(nrandom):
            k = rng.choice([t - 1, t, t + 1])
            k = max(0, min(n, k))
            scen.append(rng.shuffle(rng.shuffle(members)[:k]))
    attempts = []
    for order in scen:
        R = g.H + 1
        g.ensure_clock(R)
        start = len(g.ops)
        corrupted = [m for m in members if m not in order and m != 0][:max(0, n - t)]
        for m in order:
            for c in corrupted:
                if rng.chance(1, 3):
                    kind = rng.choice(["wrongshare", "wronground", "flip", "trunc", "nonmember", "replay"] +
                                      (["wrongprev-signed"] if g.chained else []))
                    if kind in ("wrongshare",):
                        i = (c + 1) % n
                        g.ops.append(f"deliver {i} 0 {R} T{g.H} {R} T{g.H} {c} - -")
                    elif kind == "wronground":
                        g.ops.append(f"deliver {c} 0 {R} T{g.H} {R + 1} T{g.H} - - -")
                    elif kind == "wrongprev-signed":
                        g.ops.append(f"deliver {c} 0 {R} T{g.H} {R} J1 - - -")
                    elif kind == "flip":
                        g.ops.append(f"deliver {c} 0 {R} T{g.H} {R} T{g.H} - - {16 + rng.below(300)}")
                    elif kind == "trunc":
                        g.ops.append(f"deliver {c} 0 {R} T{g.H} {R} T{g.H} - {rng.choice([1, 2, 30])} -")
                    elif kind == "nonmember":
                        g.ops.append(f"deliver {c} 0 {R} T{g.H} {R} T{g.H} {n + 1} - -")
                    elif kind == "replay":
                        g.ops.append(f"replay {rng.below(max(1, g.sent))}")
                    g.sent += 1
                    g.note(kind)
            if m == 0:
                g.ops.append(f"own {R}")
                g.note("own")
            else:
                g.ops.append(g.honest(m))
            g.sent += 0
            # a duplicate of the same member must not count twice
            if rng.chance(1, 4) and m != 0:
                g.ops.append(g.honest(m))
                g.note("duplicate")
        made = len(order) >= t
        attempts.append({"round": R, "order": order, "start": start, "end": len(g.ops), "expect": made})
        if made:
            g.H = R
        else:
            g.ops.append(f"get {R}")
            g.syncput()
    g.ops += ["scan"]
    return Seq(g.ops, {"scheme": scheme, "n": n, "t": t, "backend": backend, "kinds": g.kinds, "attempts": attempts})
