"""Engine `httpw` (C01, C14): the waiter / watch logic of the public HTTP handler (handler/http/server.go).

Scripts (lists of op lines, the first is `new` / `new tmode`) are run on the REAL DrandHandler by the harness
(harness/cmd/verifh/httpw.go; in a child process that is replaced when it dies) and on the Lean model (lean/Drand/Driver/HttpW.lean over
Drand/Http/Waiters.lean).  The property oracles below look only at the implementation's answers.
"""
import glob, json, os, subprocess
from concurrent.futures import ThreadPoolExecutor
from . import core

H = lambda: os.path.join(core.BUILD, "verifh")
D = lambda: os.path.join(core.LEAN, ".lake", "build", "bin", "vdriver")

SIG_EMPTY = "httpw|empty-200|released-by-unexpected-round"
SIG_WRONG = "httpw|wrong-round|first-delivery-after-stream-failure"
SIG_CHAINS = "httpw|chains|concurrent-map-iteration-and-write"

# the two discriminating witnesses (also corpus/C01/http/*.json)
W_EMPTY = ["new", "req a 5", "watch 10", "req b 11", "watch 12", "reap b", "settle"]
W_WRONG = ["new", "req a 5", "watch 10", "req b 11", "watchclose", "watch 12", "reap b", "settle"]


class Script:
    def __init__(self, ops, meta=None):
        self.ops, self.meta = list(ops), dict(meta or {})
        self.impl = self.model = None


def strip(o):
    return o.split(" #")[0].strip()


# ------------------------------------------------------------------------------------------------ generators

def gen_valid(r, tier, k):
    """a mostly valid interleaving; the generator keeps a shadow of (latest, parked names) only to choose sensible ops"""
    ops = ["new"]
    C = 10
    if r.chance(1, 4):
        C = r.range(2, 40)
        ops.append(f"clock {C}")
    L = 0            # latestRound as the watcher has it
    parked = []      # (name, round)
    names = 0
    gate = False
    closes = 0
    max_closes = 1 if tier == "quick" else 3
    lying = set()
    def fresh():
        nonlocal names
        names += 1
        return f"r{names}"
    ops.append(f"req {fresh()} {r.range(1, C)}")          # starts the watcher
    if r.chance(4, 5):
        L = C if r.chance(3, 4) else max(1, C - 1)
        ops.append(f"watch {L}")
    n = r.range(6, 14) if tier == "quick" else r.range(10, 40)
    for _ in range(n):
        c = r.below(100)
        if c < 22:                                           # park (or try to)
            nm = fresh()
            rd = L + 1 if (L and r.chance(9, 10)) else r.range(max(1, C - 1), C + 3)
            ops.append(f"req {nm} {rd}")
            if L and rd == L + 1:
                parked.append((nm, rd))
        elif c < 38:                                         # deliver the next round
            if L == 0:
                L = r.range(max(1, C - 1), C + 1)
            else:
                L += 1
            ops.append(f"watch {L}")
            parked = []
        elif c < 48:                                         # deliver skipping a round / several
            L = (L or C) + r.range(2, 4)
            ops.append(f"watch {L}")
            parked = []
        elif c < 55:                                         # deliver a stale round
            L = max(1, (L or C) - r.range(0, 2))
            ops.append(f"watch {L}")
            parked = []
        elif c < 63 and parked:                              # a waiter's context ends
            nm, _ = parked.pop(r.below(len(parked)))
            ops.append(f"cancel {nm}")
        elif c < 73 and parked:                              # cancel around the delivery: the watcher is held inside its loop
            nm, _ = parked[r.below(len(parked))]
            ops.append("gate")
            nxt = L + 1 if r.chance(2, 3) else L + 2
            ops.append(f"watch {nxt}")
            ops.append(f"cancel {nm}")
            if r.chance(1, 2):
                ops.append("settle")
            ops.append("ungate")
            L = nxt
            for q, _ in parked:
                ops.append(f"reap {q}")
            parked = []
        elif c < 79 and closes < max_closes:                 # the stream fails, the handler re-subscribes
            closes += 1
            ops.append("watchclose")
            L = 0
            if r.chance(2, 3):
                L = r.range(max(1, C - 1), C + 2)
                ops.append(f"watch {L}")
                for q, _ in parked:
                    ops.append(f"reap {q}")
                parked = []
        elif c < 84:
            ops.append(r.choice(["health", "latest", "chains", "settle"]))
        elif c < 88:                                         # a failing client
            rd = r.range(1, C)
            ops += [f"setget {rd} err", f"req {fresh()} {rd}", f"setget {rd} std"]
        elif c < 90:
            ops += ["infofail on", "dropinfo", f"req {fresh()} {r.range(1, C)}", "health", "infofail off", f"req {fresh()} {r.range(1, C)}"]
        elif c < 93:                                         # time passes
            C += 1
            ops.append(f"clock {C}")
        elif c < 96:
            ops.append(f"req {fresh()} {r.choice([1, C, C + 1, C + 2, C + 50, 2**63, 2**64 - 1])}")
        elif c < 98 and parked:
            ops.append(f"reap {parked[r.below(len(parked))][0]}")
        elif tier != "quick" or r.chance(1, 3):
            if L:
                ops.append(f"race {r.range(2, 12)} {r.below(1 << 30)}")
                L += 1
                parked = []
    # every request must be answered: deliver once more or cancel what is still parked
    for nm, _ in parked:
        ops.append(f"cancel {nm}")
    ops.append("settle")
    return Script(ops, {"kind": "valid", "k": k})


def gen_tmode(r, k):
    ops = ["new tmode", f"req a {r.range(1, 9)}", "watch 10", "req b 11"]
    if r.chance(1, 2):
        ops.append("req c 11")
    ops.append("wtimeout")
    ops.append(f"watch {r.choice([11, 11, 12, 10])}")
    ops += ["reap b", "settle", "req d 12", "cancel d", "cancel c", "settle"]
    return Script(ops, {"kind": "timeout", "k": k})


def gen_lying(r, k):
    """the fake client answers Get(r) with another round: the handler passes it on (this is the GetExact hypothesis of
    c01_http_200_is_round; the C01 oracle is not applied to these scripts, only the model diff)"""
    rd = r.range(1, 9)
    other = rd + r.range(1, 5)
    return Script(["new", f"setget {rd} b{other}", f"req a {rd}", "sethead 7", "latest", "settle"], {"kind": "lying-client", "k": k})


def gen_malformed(r, k):
    ops = ["new"]
    pool = ["reap zz", "cancel zz", "ungate", "watch 10", "watchclose", "gate", "wtimeout", "req a abc", "req a -1", "req a 0",
            "watch 99999999999999999999999", "req b 18446744073709551616", "reqraw x /public/abc", "reqraw y /public/-5",
            "reqraw z /public/18446744073709551616", "reqraw u /00ff/public/3", "reqraw v /zz/public/3", "reqraw w /nonsense",
            "reqraw q /public/1/2", "setget x err", "setget 3 bogus", "sethead x", "clock 0", "clock abc", "race 0 1", "race 5 1",
            "bogus", "req", "health", "latest", "chains", "settle", "req c 5", "req c 6", "cancel c", "reap c", "watch 10", "gate", "gate",
            "watch 11", "req d 12", "health", "watchclose", "ungate", "ungate", "settle"]
    for _ in range(r.range(8, 20)):
        ops.append(r.choice(pool))
    # leave no watcher held
    ops += ["ungate", "settle"]
    return Script(ops, {"kind": "malformed", "k": k})


def gen_slow(r, k):
    """a client that reads slowly: the answer the handler decided on is written only after further rounds went through the
    watch loop; what finally leaves must still be the beacon of the requested round (engine ops reqslow / unslow; the Lean
    model has no notion of a response writer, these scripts are judged by the property oracle only)"""
    L = r.range(3, 40)
    ops = ["new", f"req a {r.range(1, L)}", f"watch {L}"]
    if r.chance(2, 3):
        # parked for the next round, released by the watcher, then overtaken by later rounds before the client reads
        ops += [f"reqslow b {L + 1}", f"watch {L + 1}", "reap b"]
        n = L + 1
    else:
        # served by a direct Get of a past round, then overtaken
        ops += [f"reqslow b {r.range(1, L)}"]
        n = L
    for _ in range(r.range(1, 3)):
        n += 1
        ops.append(f"watch {n}")
        if r.chance(1, 3):
            ops += [f"req c{n} {n}"]
    ops += ["reap b", "unslow b", "reap b", "settle"]
    return Script(ops, {"kind": "slow-reader", "k": k})


def generate(rng, tier):
    out = []
    nv, nt, nl, nm = (40, 2, 2, 6) if tier == "quick" else (1500, 12, 10, 120)
    for k in range(4 if tier == "quick" else 60):
        out.append(gen_slow(rng.fork(f"httpw/slow/{k}"), k))
    for k in range(nv):
        out.append(gen_valid(rng.fork(f"httpw/valid/{k}"), tier, k))
    for k in range(nt):
        out.append(gen_tmode(rng.fork(f"httpw/tmode/{k}"), k))
    for k in range(nl):
        out.append(gen_lying(rng.fork(f"httpw/lying/{k}"), k))
    for k in range(nm):
        out.append(gen_malformed(rng.fork(f"httpw/mal/{k}"), k))
    return out


def load_corpus(prop):
    out = []
    for f in sorted(glob.glob(os.path.join(core.VERIF, "corpus", prop, "http", "*.json"))):
        c = json.load(open(f))
        out.append(Script(c["ops"], {"kind": "corpus", "corpus": os.path.basename(f), "signature": c.get("signature")}))
    return out


# ------------------------------------------------------------------------------------------------ running

def _run(binary, args, lines, timeout):
    env = dict(os.environ, GOMEMLIMIT="2GiB", GOMAXPROCS="4", VERIF_TMP=core.scratch())
    try:
        p = subprocess.run([binary] + args, input="\n".join(lines) + "\n", stdout=subprocess.PIPE, stderr=subprocess.PIPE,
                           text=True, timeout=timeout, env=env)
    except subprocess.TimeoutExpired as e:
        so = e.stdout or b""
        return -9, (so.decode() if isinstance(so, bytes) else so).splitlines(), "timeout"
    return p.returncode, p.stdout.splitlines(), p.stderr


def run_impl(scripts, workers=8, timeout=600):
    """fills s.impl (stripped answers; missing answers are 'dead')"""
    if not scripts:
        return
    core.scratch()
    chunks = [scripts[i::workers] for i in range(workers)]
    chunks = [c for c in chunks if c]
    def one(chunk):
        lines = [l for s in chunk for l in s.ops]
        rc, out, err = _run(H(), ["httpw"], lines, timeout)
        i = 0
        for s in chunk:
            got = out[i:i + len(s.ops)]
            i += len(s.ops)
            s.impl = [strip(x) for x in got] + ["dead"] * (len(s.ops) - len(got))
            s.raw = got
    with ThreadPoolExecutor(max_workers=len(chunks)) as pool:
        list(pool.map(one, chunks))


def run_model(scripts, variant):
    scripts = [s for s in scripts if s.meta.get("kind") != "slow-reader"]
    lines = [l for s in scripts for l in s.ops]
    rc, out, err = _run(D(), ["httpw", variant], lines, 600)
    if rc != 0 or len(out) != len(lines):
        raise core.Broken("model:httpw", f"exit {rc}, {len(out)}/{len(lines)} answers: {err[-600:]}")
    i = 0
    for s in scripts:
        s.model = [strip(x) for x in out[i:i + len(s.ops)]]
        i += len(s.ops)


def src_variant():
    rc, out, err = _run(D(), ["httpw", "src"], ["srcvariant"], 60)
    return out[0].strip() if rc == 0 and out else "unknown"


# ------------------------------------------------------------------------------------------------ oracles

def _shadow(s, upto):
    """latestRound as the script has driven it before op `upto` (deliveries and stream failures that took effect)"""
    L = 0
    for op, out in list(zip(s.ops, s.impl))[:upto]:
        f = op.split()
        if f[0] == "watch" and out in ("ok", "gated"):
            L = int(f[1])
        elif f[0] == "watchclose" and out == "ok":
            L = 0
        elif f[0] == "race" and out.startswith("race"):
            L += 1
    return L


def oracle_c01(s):
    """C01: a 200 answer to the request for round r carries the beacon of round r (its signature and randomness as the
    client holds them for that round) and nothing else. Returns None or (index, code, why, signature)."""
    if s.meta.get("kind") == "lying-client":
        return None
    asked = {}
    for i, (op, out) in enumerate(zip(s.ops, s.impl)):
        f = op.split()
        if f[0] in ("req", "reqslow") and len(f) == 3 and f[2].isdigit() and f[1] not in asked:
            asked[f[1]] = (int(f[2]), i)
        if f[0] in ("req", "reqslow", "reap", "cancel") and len(f) >= 2 and out.startswith("200"):
            if f[1] not in asked:
                continue
            want, at = asked[f[1]]
            body = out.split()[1] if len(out.split()) > 1 else "?"
            if body == f"b{want}":
                continue
            # the delivery that released the request: the last effective `watch` between its arrival and this answer
            rel = None
            for j in range(i, at, -1):
                g = s.ops[j].split()
                if g[0] == "watch" and s.impl[j] in ("ok", "gated"):
                    rel = j
                    break
            n = int(s.ops[rel].split()[1]) if rel is not None else None
            Lbefore = _shadow(s, rel) if rel is not None else None
            closed_between = any(o.split()[0] == "watchclose" and x == "ok" for o, x in zip(s.ops[at:i], s.impl[at:i]))
            if body == "-":
                sig = SIG_EMPTY if (Lbefore and n is not None and n != Lbefore + 1) else "httpw|empty-200|other"
                return i, "empty-200", f"the request for round {want} was answered 200 with an EMPTY body", sig
            sig = SIG_WRONG if (rel is not None and Lbefore == 0 and closed_between) else "httpw|wrong-round|other"
            return i, "wrong-round", f"the request for round {want} was answered 200 with {body}: not the beacon of round {want}", sig
    return None


def oracle_c14(s):
    """C14: every request is answered or rejected within the watchdog, the process survives, no lock stays held, the
    watch loop keeps serving. Returns None or (index, code, why, signature)."""
    holding = False
    for i, (op, out) in enumerate(zip(s.ops, s.impl)):
        f = op.split()
        o = out.split()[0] if out.split() else ""
        if o.startswith("crash") or o == "dead":
            if f[0] == "chainsrace":
                return i, "crash", f"the process died while /chains was served concurrently with handler registration: {out}", SIG_CHAINS
            return i, "crash", f"the process serving the HTTP API died: {out}", "httpw|crash|" + out.split(":", 1)[-1]
        if o.startswith("panic:"):
            return i, "panic", f"a handler goroutine panicked: {out}", "httpw|panic"
        if o in ("hang", "stuck") or out.startswith("parked-cap"):
            return i, "hang", f"no answer within the watchdog: {out}", "httpw|hang"
        if o == "race-bad":
            return i, "race", f"a request racing a delivery was not answered correctly: {out}", "httpw|race"
        if f[0] == "watch" and out == "gated":
            holding = True
        if f[0] == "ungate" and out == "ok":
            holding = False
        if f[0] == "settle" and not holding and ("held" in out or "?" in out):
            return i, "lock", f"a lock stayed held after the requests completed: {out}", "httpw|lock-held"
        if f[0] == "health" and o not in ("200", "503", "refused"):
            return i, "health", f"/health answered {out}", "httpw|health"
    return None


ORACLES = {"C01": oracle_c01, "C14": oracle_c14}


def diff(s):
    """first index where implementation and model disagree (race / chainsrace / reqraw lines: first token resp. ignored)"""
    if s.model is None:
        return None     # oracle-only script (slow reader)
    for i, (op, a, b) in enumerate(zip(s.ops, s.impl, s.model)):
        k = op.split()[0] if op.split() else ""
        if k in ("reqraw", "chainsrace"):
            continue
        if k == "race":
            a, b = a.split()[0] if a else a, b.split()[0] if b else b
        if a != b:
            return i
    return None


def shrink(s, keep, budget=30):
    """greedy removal of ops (never the first) while keep(script) holds"""
    cur = list(s.ops)
    changed, spent = True, 0
    while changed and spent < budget:
        changed = False
        for j in range(len(cur) - 1, 0, -1):
            cand = cur[:j] + cur[j + 1:]
            t = Script(cand, s.meta)
            run_impl([t], workers=1, timeout=120)
            spent += 1
            if keep(t):
                cur, changed = cand, True
            if spent >= budget:
                break
    t = Script(cur, s.meta)
    run_impl([t], workers=1, timeout=120)
    return t


# ------------------------------------------------------------------------------------------------ exploration

def detect_variant():
    """which variant of the two repaired places the implementation shows on the discriminating witnesses"""
    we, ww = Script(W_EMPTY), Script(W_WRONG)
    run_impl([we, ww], workers=2, timeout=120)
    e = {"200 -": "0", "404 -": "1", "200 b11": "1"}.get(we.impl[5], "?")
    f = {"200 b12": "0", "404 -": "1", "200 b11": "1"}.get(ww.impl[6], "?")
    return f"e{e}f{f}", we, ww


def explore_http(ctx, res, prop):
    """sub-exploration shared by C01 and C14; fills res.cov['http_waiters']; returns True if it reported a violation.
    When a proof / tie / build step broke (ctx['deep']) the quick budget runs first and the thorough one only if that
    found no failing input."""
    tiers = ["quick", "thorough"] if ctx["deep"] and ctx["tier"] == "quick" else ["thorough" if ctx["deep"] else ctx["tier"]]
    for t in tiers:
        nv = len(res.violations)
        if _explore_http(ctx, res, prop, t) and any(f for _, f in res.violations[nv:]):
            return True
    return any(f for _, f in res.violations)


def _explore_http(ctx, res, prop, tier):
    rng = ctx["rng"].fork(f"httpw/{prop}/{tier}")
    oracle = ORACLES[prop]
    cov = {"engine": "httpw", "evaluations": 0, "distinct_nontrivial": 0, "traces_validated_against_impl": 0, "samples": [],
           "distribution": {"ops": {}, "answers": {}, "kinds": {}, "parked": 0, "released_by_watcher": 0, "cancelled": 0,
                            "gated_interleavings": 0, "stream_failures": 0, "races": 0}}
    res.cov["http_waiters"] = cov
    variant, we, ww = detect_variant()
    cov["implementation_variant"] = variant
    static = src_variant() if ctx["model_ok"] else "unknown"
    cov["source_variant_from_regenerated_facts"] = static
    found = False

    def report(s, hit, extra=None):
        i, code, why, sig = hit
        rep = {"engine": "httpw", "kind": "impl-violates", "ops": s.ops[: i + 1], "observed": s.impl[: i + 1], "oracle": why, "code": code}
        rep.update(extra or {})
        return res.report(sig, rep)

    if "?" in variant:
        # neither the as-is nor the repaired behaviour on a witness: the oracle decides below (the witnesses run first)
        cov["variant_note"] = f"witness answers: {we.impl[5]!r}, {ww.impl[6]!r}"
    mv = variant.replace("?", "0")
    exp_static = {"e0f0": "asis", "e1f1": "fixed"}.get(variant)
    if ctx["model_ok"] and static != "unknown" and exp_static and not static.startswith(exp_static):
        res.add_violation({"engine": "httpw", "kind": "model-impl-diverge", "ops": W_EMPTY + W_WRONG, "observed": we.impl + ww.impl,
                           "note": f"the regenerated source facts say variant {static!r}, the handler behaves as {variant!r}"}, found=False)

    scripts = load_corpus(prop) + [we, ww] + generate(rng, tier)
    if prop == "C14":
        scripts.append(Script(["new", "chainsrace " + ("1500 8" if tier == "quick" else "6000 8"), "settle"], {"kind": "chains-race"}))
    todo = [s for s in scripts if s.impl is None]
    run_impl(todo, workers=8 if tier == "quick" else min(16, os.cpu_count() or 8))
    if ctx["model_ok"]:
        run_model(scripts, mv)

    nontriv = set()
    for s in scripts:
        d = cov["distribution"]
        d["kinds"][s.meta.get("kind", "witness")] = d["kinds"].get(s.meta.get("kind", "witness"), 0) + 1
        cov["evaluations"] += len(s.ops)
        moved = False
        for op, out in zip(s.ops, s.impl):
            k = op.split()[0] if op.split() else "-"
            d["ops"][k] = d["ops"].get(k, 0) + 1
            a = out.split()[0] if out.split() else "-"
            a = a.split(":")[0]
            d["answers"][a] = d["answers"].get(a, 0) + 1
            if out == "parked":
                d["parked"] += 1; moved = True
            if k == "reap" and out[:3] in ("200", "404"):
                d["released_by_watcher"] += 1
            if k == "cancel" and out.startswith("500"):
                d["cancelled"] += 1
            if out == "gated":
                d["gated_interleavings"] += 1
            if k == "watchclose" and out == "ok":
                d["stream_failures"] += 1
            if k == "race" and out.startswith("race"):
                d["races"] += 1
        if moved:
            nontriv.add(tuple(s.ops))
    cov["distinct_nontrivial"] = len(nontriv)

    # property oracle first (a failing input beats a divergence)
    reported = set()
    for s in scripts:
        hit = oracle(s)
        if hit is None:
            continue
        sig = hit[3]
        if sig in reported:
            continue
        known = any(f.get("property") == prop and f.get("signature") == sig for f in ctx["findings"].get("findings", []))
        if known:
            reported.add(sig)
            report(s, hit)
            continue
        # an unknown failure: confirm on a rerun, minimise, report with the concrete script
        t = Script(s.ops, s.meta)
        run_impl([t], workers=1, timeout=300)
        h2 = oracle(t)
        if h2 is None or h2[3] != sig:
            cov["distribution"]["unconfirmed_on_rerun"] = cov["distribution"].get("unconfirmed_on_rerun", 0) + 1
            if s.meta.get("kind") != "valid" or tier == "quick":
                continue
            # a racy failure: keep the observed transcript as the replay (the schedule is not forced)
            reported.add(sig)
            if report(s, hit, {"note": "not reproduced on an immediate rerun (scheduling-dependent); ops are the observed script"}):
                found = True
            continue
        t.ops, t.impl = t.ops[: h2[0] + 1], t.impl[: h2[0] + 1]
        m = shrink(t, lambda x: (lambda h: h is not None and h[3] == sig)(oracle(x)), budget=40 if tier == "quick" else 120)
        hm = oracle(m)
        reported.add(sig)
        if hm is not None and report(m, hm, {"from": s.meta}):
            found = True
    if found or not ctx["model_ok"]:
        _samples(cov, scripts)
        return found

    # correspondence with the model (variant as detected)
    for s in scripts:
        if oracle(s) is not None:
            continue    # reported above (known finding or violation); the transcripts cannot agree past that point
        if s.model is None:
            continue    # oracle-only script
        j = diff(s)
        if j is None:
            cov["traces_validated_against_impl"] += 1
            continue
        if oracle_c14(s) is not None and prop != "C14":
            # the implementation run died / hung: that is C14's business; the transcripts cannot agree
            cov["distribution"]["skipped_dead_runs"] = cov["distribution"].get("skipped_dead_runs", 0) + 1
            continue
        t = Script(s.ops[: j + 1], s.meta)
        run_impl([t], workers=1, timeout=300)
        run_model([t], mv)
        if diff(t) is None:
            cov["distribution"]["unconfirmed_on_rerun"] = cov["distribution"].get("unconfirmed_on_rerun", 0) + 1
            continue
        def still(x):
            run_model([x], mv)
            return diff(x) is not None and oracle(x) is None
        m = shrink(t, still, budget=30)
        run_model([m], mv)
        jj = diff(m)
        res.add_violation({"engine": "httpw", "kind": "model-impl-diverge", "ops": m.ops, "observed": m.impl[jj:jj + 1] if jj is not None else [],
                           "expected": m.model[jj:jj + 1] if jj is not None else [], "variant": mv,
                           "note": "the real handler and the Lean waiter model answer differently; the property oracle accepts the implementation's answers on this script"},
                          found=False)
        found = True
        break
    _samples(cov, scripts)
    return found


def _samples(cov, scripts):
    for s in scripts:
        if s.meta.get("kind") in ("valid", "timeout") and len(cov["samples"]) < 3:
            cov["samples"].append({"ops": s.ops[:14], "impl": s.impl[:14]})
    cov["rule"] = ("scripts over the real handler/http DrandHandler with a scripted fake client (in a supervised child process: a crash is an outcome): a request that starts the watcher, "
                   "a first delivered round, then random blocks — park a request for latest+1 (or a past / future / far-future / 2^64-1 round), deliver the next round, "
                   "deliver skipping 1–3 rounds, deliver a stale round, end a parked request's context, end it while the watcher is held inside its notification loop "
                   "(gate … watch … cancel … ungate), close the stream and re-subscribe (with or without a delivery after it), client Get / Info failures, clock steps, "
                   "/health, /public/latest, /chains, race (k requests for latest+1, delivery and cancellations at random offsets ≤ 300 µs); the idle-timeout scripts (tmode); "
                   "lying-client scripts (model diff only); malformed op streams; the two defect witnesses. evaluations = op lines; non-trivial = distinct script in which a "
                   "request was parked")
