"""Shared machinery of the C06 / C07 checks: scripts for the `dkgrun` engine (n real dkg.Process instances, real kyber
DKG), the runner, the property oracles evaluated on the implementation's answers, and the model comparison."""
import hashlib, json, os
from concurrent.futures import ThreadPoolExecutor
from . import core

SCHEMES = ["pedersen-bls-chained", "pedersen-bls-unchained", "bls-unchained-on-g1", "bls-unchained-g1-rfc9380", "bls-bn254-unchained-on-g1"]
CHAINED = SCHEMES[0]
ROUNDS_UNTIL_TRANSITION = 10
STRADDLE_SIG = "transition-time-from-local-clock:completion-straddles-round-boundary"


def H(algo, b):
    return hashlib.sha256(b).digest() if algo == "sha256" else hashlib.blake2b(b, digest_size=32).digest()


def eval_toks(toks, algo):
    out = b""
    for t in toks:
        kind, hexs = t.split(":")
        raw = b"" if hexs == "-" else bytes.fromhex(hexs)
        out += raw if kind == "R" else H("blake2b256", raw)
    return H(algo, out)


# ---------------------------------------------------------------------------------------------- running

def run_script(lines, timeout=900):
    h = os.path.join(core.BUILD, "verifh")
    rc, out, err = core.run_lines(h, ["dkgrun"], lines, timeout=timeout, env=dict(os.environ, GOMEMLIMIT="3GiB"))
    if rc == 3:
        # an op did not return: the harness dumped every goroutine's stack
        dump = os.path.join(core.BUILD, f"dkgrun_wedged_{os.getpid()}.txt")
        open(dump, "w").write("\n".join(lines) + "\n----\n" + err)
        raise core.Broken("harness:dkgrun", f"an op did not return within 240 s (process wedged); goroutine dump in {dump}; last op: {out[-1][:200] if out else '?'}")
    if rc != 0 or len(out) != len(lines):
        raise core.Broken("harness:dkgrun", f"exit {rc}, {len(out)}/{len(lines)} lines: {err[-1500:]}")
    res = []
    for l in out:
        try:
            res.append(json.loads(l))
        except Exception:
            raise core.Broken("harness:dkgrun", f"unparsable result line {l[:300]!r}")
    return res


def run_scripts(scripts, workers=8):
    """scripts: list of (name, [op lines]); returns list of (name, lines, results) in the same order"""
    with ThreadPoolExecutor(max_workers=workers) as ex:
        outs = list(ex.map(lambda s: run_script(s[1]), scripts))
    return [(n, l, o) for (n, l), o in zip(scripts, outs)]


def run_model(ops):
    d = os.path.join(core.LEAN, ".lake", "build", "bin", "vdriver")
    if not ops:
        return []
    rc, out, err = core.run_lines(d, ["dkgrun"], ops)
    if rc != 0 or len(out) != len(ops):
        raise core.Broken("model:dkgrun", f"exit {rc}, {len(out)}/{len(ops)}: {err[-1000:]}")
    return out


# ---------------------------------------------------------------------------------------------- helpers on dumps

def py_transition(epoch, now, period, genesis):
    """independent reading of the tail of startDKGExecution (exact arithmetic; sane ranges only)"""
    if epoch == 1:
        return genesis
    if now < genesis:
        cur = 1
    else:
        cur = (now - genesis) // period + 1
    r = cur + ROUNDS_UNTIL_TRANSITION
    return genesis + (r - 1) * period


def synchronous(res):
    """kyber's DKG is a synchronous protocol: a run says something about agreement only if every bundle reached every
    node within the phase. True when the run met that assumption: no node was starved / no delivery was late by a quarter
    of a phase, and (unless a node was taken off line on purpose, which makes the phase timers drive the run) every node
    that completed did so before the first phase timer could fire."""
    ph = res.get("phase_ms") or 0
    if not ph or not res.get("kickoff_ms"):
        return True
    if max(res.get("max_delivery_lag_ms", 0), res.get("max_sched_lag_ms", 0)) > ph / 4:
        return False
    if not res.get("down") and not res.get("link_faults"):
        # (with a link fault in the schedule a node that misses a bundle is driven by the phase timers: that is the run to judge)
        his = [n["done_hi_ms"] for n in res.get("nodes", {}).values() if n.get("completed")]
        if his and max(his) >= res["kickoff_ms"] + ph - 100:
            return False
    return True


def completed(res):
    """{node: fin state} of the nodes that completed the epoch of this result"""
    out = {}
    for i, n in res.get("nodes", {}).items():
        if n.get("completed") and n.get("fin") and n["fin"]["epoch"] == res.get("epoch"):
            out[int(i)] = n
    return out


GROUP_FIELDS = ["id", "thr", "period", "period_ns", "catchup", "scheme", "genesis", "seed", "transition", "coeffs"]


def canon_nodes(g):
    return sorted((n["index"], n["addr"], n["key"], n["sig"]) for n in g["nodes"])


def group_diff(a, b):
    d = [f for f in GROUP_FIELDS if a[f] != b[f]]
    if canon_nodes(a) != canon_nodes(b):
        d.append("nodes")
    return d


def part_token(p):
    return f"{p['addr']}|{p['key']}|{p['sig']}|1"


def asgroup_op(fin):
    g = fin["group"]
    parts = fin["remaining"] + fin["joining"]
    return " ".join(["asgroup", fin["id"].encode().hex() or "-", str(fin["thr"]), str(fin["period"]),
                     fin["scheme"] or "-", str(fin["catchup"]), str(fin["genesis"]),
                     # the seed the terms carried: empty in epoch 1 (Complete() then copies the group's seed into the state)
                     "-" if fin["epoch"] == 1 else fin["seed"],
                     str(g["transition"]), ",".join(g["coeffs"]) or "-", ",".join(str(n["index"]) for n in g["nodes"]) or "-",
                     ";".join(part_token(p) for p in parts) or "-"])


def impl_group_line(g):
    """the implementation's group in the format of the model's `asgroup` answer (seed compared separately)"""
    nodes = ";".join(f"{n['index']}|{n['addr']}|{n['key']}|{n['sig']}" for n in g["nodes"]) or "-"
    return (f"ok id={g['id'].encode().hex() or '-'} thr={g['thr']} period={g['period']} scheme={g['scheme']} catchup={g['catchup']} "
            f"genesis={g['genesis']} tt={g['transition']} nodes={nodes} coeffs={','.join(g['coeffs']) or '-'}")


def model_group_check(model_line, g):
    """compare the model's asgroup answer with the implementation's group; returns None or a description"""
    if " seed=" not in model_line:
        return f"model answered {model_line[:120]}"
    head, seed = model_line.split(" seed=", 1)
    if head != impl_group_line(g):
        return f"fields differ: model {head[:400]} vs impl {impl_group_line(g)[:400]}"
    st = seed.split()
    if st[0] == "given":
        want = "-" if st[1] == "-" else st[1]
        if want != g["seed"]:
            return f"seed: model given {want} vs impl {g['seed']}"
    else:
        got = eval_toks(st[1:], "blake2b256").hex()
        if got != g["seed"]:
            return f"seed: model hash-of-group {got} vs impl {g['seed']}"
    return None


def chain_token(g):
    return ",".join([g["id"].encode().hex() or "-", str(g["period"]), str(g["genesis"]), g["seed"], str(g["transition"]), g["scheme"],
                     g["coeffs"][0] if g["coeffs"] else "-"])


def net_line(scheme, n, bid, phase, kickoff, seed):
    return f"net {scheme} {n} {bid} {phase} {kickoff} {seed}"


def lst(xs):
    return ",".join(str(x) for x in xs) if xs else "-"


def initial_line(order, thr, leader, period=30, catchup=1, genesis=-100, timeout=90, sched=None, subsets=None):
    s = f"initial thr={thr} order={lst(order)} leader={leader} period={period} catchup={catchup} genesis={genesis} timeout={timeout}"
    if sched:
        s += f" sched={sched}"
    if subsets:
        s += f" subsets={subsets}"
    return s


def reshare_line(remain, join, leave, thr, leader, catchup=1, timeout=90, sched=None, mode=None, tamper=None, subsets=None):
    s = f"reshare thr={thr} remain={lst(remain)} join={lst(join)} leave={lst(leave)} leader={leader} timeout={timeout} catchup={catchup}"
    if sched:
        s += f" sched={sched}"
    if mode:
        s += f" mode={mode}"
    if tamper:
        s += f" tamper={tamper}"
    if subsets:
        s += f" subsets={subsets}"
    return s


def thresholds(n):
    return list(range(n // 2 + 1, n + 1))


# ---------------------------------------------------------------------------------------------- C06 oracle

def oracle_c06(res):
    """P5 on one epoch result. Returns list of (signature, why, detail)."""
    bad = []
    comp = completed(res)
    if not comp:
        return bad
    ids = sorted(comp)
    fins = {i: comp[i]["fin"] for i in ids}
    # one group
    ref = fins[ids[0]]["group"]
    straddle = None
    for i in ids[1:]:
        d = group_diff(ref, fins[i]["group"])
        if d == ["transition"] and res["epoch"] != 1:
            straddle = (ids[0], i)
        elif d:
            bad.append(("group-disagreement:" + "+".join(d), f"nodes {ids[0]} and {i} completed epoch {res['epoch']} with groups that differ in {d}",
                        {"a": ref, "b": fins[i]["group"]}))
    for p in res.get("pairwise", []):
        if p["a"] in comp and p["b"] in comp and not (p["equal"] and p["hash_equal"]):
            da = group_diff(fins[p["a"]]["group"], fins[p["b"]]["group"])
            if da == ["transition"] and res["epoch"] != 1:
                continue
            if not da:
                bad.append(("group-equal-disagrees", f"Group.Equal/Hash say nodes {p['a']},{p['b']} differ although all compared fields agree", p))
    if straddle:
        # is it the local-clock defect and nothing else?  each node's value must be what its own clock reading gives
        ok = True
        wins = {}
        for i in ids:
            f, n = fins[i], comp[i]
            lo, hi = n["done_lo_ms"] // 1000, n["done_hi_ms"] // 1000
            cand = {py_transition(f["epoch"], t, f["period"], f["genesis"]) for t in range(lo, hi + 1)}
            wins[i] = (lo, hi, f["group"]["transition"])
            if f["group"]["transition"] not in cand:
                ok = False
        if ok:
            bad.append((STRADDLE_SIG, f"epoch {res['epoch']}: nodes completed on different sides of a round boundary and built groups with different "
                        f"TransitionTime (hence different group hashes): {wins}", {"windows": {str(k): v for k, v in wins.items()}}))
        else:
            bad.append(("group-disagreement:transition-unexplained", f"groups differ in TransitionTime and it is not the value the node's own clock gives: {wins}",
                        {"windows": {str(k): v for k, v in wins.items()}}))
    for i in ids:
        f = fins[i]
        g = f["group"]
        parts = f["remaining"] + f["joining"]
        keys = sorted(bytes.fromhex(p["key"]) for p in parts)
        rank = {k.hex(): r for r, k in enumerate(keys)}
        byaddr = {p["addr"]: p for p in parts}
        if len(rank) != len(parts):
            bad.append(("duplicate-keys", "participants with equal keys", {}))
        if not f["has_share"] or not f["share_on_poly"]:
            bad.append(("share-off-polynomial", f"node {i}: share.V * base != PubPoly.Eval(index {f['share_index']})", {"node": i}))
        if not f["commits_eq_group"]:
            bad.append(("share-commits-differ", f"node {i}: the commitments of its share differ from the group's public coefficients", {"node": i}))
        mine = [n for n in g["nodes"] if n["who"] == i]
        if len(mine) != 1 or mine[0]["index"] != f["share_index"] or not f["index_matches_node"]:
            bad.append(("share-index-mismatch", f"node {i}: share index {f['share_index']} is not the index of its own entry in the group", {"node": i}))
        for n in g["nodes"]:
            p = byaddr.get(n["addr"])
            if p is None or p["key"] != n["key"] or p["sig"] != n["sig"]:
                bad.append(("node-not-a-participant", f"node {i}: group member {n['addr']} does not match a proposed participant", {"node": i}))
            elif rank[n["key"]] != n["index"]:
                bad.append(("index-not-key-rank", f"node {i}: member {n['addr']} has index {n['index']} but its key has rank {rank[n['key']]} among the "
                            "participants sorted by public key", {"node": i}))
        if len({n["index"] for n in g["nodes"]}) != len(g["nodes"]):
            bad.append(("duplicate-index", f"node {i}: duplicate indices in the group", {"node": i}))
        for k, (a, b) in {"thr": (g["thr"], f["thr"]), "scheme": (g["scheme"], f["scheme"]), "period": (g["period"], f["period"]),
                          "catchup": (g["catchup"], f["catchup"]), "genesis": (g["genesis"], f["genesis"]), "id": (g["id"], f["id"]),
                          "seed": (g["seed"], f["seed"])}.items():
            if a != b:
                bad.append(("group-field-not-from-terms:" + k, f"node {i}: group {k}={a} but the stored terms say {b}", {"node": i}))
        if g["period_ns"] != g["period"] * 10**9:
            bad.append(("period-not-whole-seconds", f"node {i}: period {g['period_ns']} ns", {"node": i}))
        if len(g["coeffs"]) != g["thr"]:
            bad.append(("coefficients-vs-threshold", f"node {i}: {len(g['coeffs'])} public coefficients for threshold {g['thr']}", {"node": i}))
        if f["epoch"] == 1:
            if g["transition"] != g["genesis"]:
                bad.append(("epoch1-transition-not-genesis", f"node {i}: first-epoch transition time {g['transition']} != genesis {g['genesis']}", {"node": i}))
            if g["seed"] != g["hash"]:
                bad.append(("epoch1-seed-not-group-hash", f"node {i}: genesis seed {g['seed']} is not the hash of the first group {g['hash']}", {"node": i}))
    thr = fins[ids[0]]["group"]["thr"]
    if len(ids) >= thr and not res.get("subsets"):
        bad.append(("no-threshold-subset-evaluated", "the harness evaluated no t-subset", {}))
    for s in res.get("subsets", []):
        if not (s.get("signed") and s.get("partials_verify") and s.get("recovered") and s.get("verifies")):
            bad.append(("threshold-subset-does-not-sign", f"shares of nodes {s['s']} do not produce a signature that verifies under the group key: {s}", s))
        if s.get("fewer_recover"):
            bad.append(("fewer-than-threshold-recover", f"{thr - 1} partials recovered a signature: {s}", s))
    return bad


def model_ops_c06(res):
    """(ops, expectations) for the Lean model: sort, asgroup, ttime per completed node"""
    ops, exp = [], []
    comp = completed(res)
    for i in sorted(comp):
        f = comp[i]["fin"]
        g = f["group"]
        parts = f["remaining"] + f["joining"]
        keys = [p["key"] for p in parts]
        ops.append("sort " + ",".join(keys))
        exp.append(("sort", ",".join(k.hex() for k in sorted(bytes.fromhex(x) for x in keys)), i))
        ops.append(asgroup_op(f))
        exp.append(("asgroup", g, i))
        lo, hi = comp[i]["done_lo_ms"] // 1000, comp[i]["done_hi_ms"] // 1000
        if hi - lo > 20:
            lo = hi - 20
        for t in range(lo, hi + 1):
            ops.append(f"ttime {f['epoch']} {t} {f['period']} {f['genesis']}")
            exp.append(("ttime", (g["transition"], t, lo, hi), i))
    return ops, exp


def model_diff_c06(res, counters):
    """returns None or (op, observed, expected, note)"""
    ops, exp = model_ops_c06(res)
    out = run_model(ops)
    tt = {}
    for op, o, (kind, want, node) in zip(ops, out, exp):
        if kind == "sort":
            counters["sort"] = counters.get("sort", 0) + 1
            if o != want:
                return (op, want, o, f"node {node}: model order of keys differs from bytewise sorting")
        elif kind == "asgroup":
            counters["asgroup"] = counters.get("asgroup", 0) + 1
            why = model_group_check(o, want)
            if why:
                return (op, impl_group_line(want), o, f"node {node}: {why}")
        else:
            impl_tt, t, lo, hi = want
            tt.setdefault(node, {"impl": impl_tt, "model": set(), "lo": lo, "hi": hi})["model"].add(int(o) if o.lstrip("-").isdigit() else o)
    for node, d in tt.items():
        counters["ttime"] = counters.get("ttime", 0) + 1
        if len(d["model"]) == 1:
            counters["ttime_exact"] = counters.get("ttime_exact", 0) + 1
        if d["impl"] not in d["model"]:
            return (f"ttime … now in [{d['lo']},{d['hi']}]", str(d["impl"]), str(sorted(d["model"])),
                    f"node {node}: the implementation's TransitionTime is not what the model computes for any clock reading in the observed completion window")
    return None


# ---------------------------------------------------------------------------------------------- C07 oracle

IDENTITY = ["genesis", "seed", "period", "scheme", "id", "chainhash"]


def last_groups(results, upto):
    """the last completed group of every node before result index `upto`"""
    out = {}
    for r in results[:upto]:
        if r.get("op") not in ("initial", "reshare"):
            continue
        for i, n in (r.get("nodes") or {}).items():
            if n.get("fin") and n["fin"].get("group"):
                out[int(i)] = n["fin"]
    return out


def oracle_c07_epoch(results, k):
    """identity and share hand-over for reshare result k (relative to what the nodes held before). [(sig, why, detail)]"""
    res = results[k]
    bad = []
    if res.get("op") != "reshare":
        return bad
    before = last_groups(results, k)
    comp = completed(res)
    attempted = res["steps"].get("propose") == "ok"
    if not comp:
        # nobody completed (abort / failure / refusal): the completed record of every node must be untouched
        for i, n in res["nodes"].items():
            was = before.get(int(i))
            now = n.get("fin")
            if (was is None) != (now is None) or (was and (was["epoch"] != now["epoch"] or group_diff(was["group"], now["group"]) or
                                                           was["share_index"] != now["share_index"])):
                bad.append(("failed-reshare-changed-finished-record", f"node {i}: a reshare that did not complete changed the last completed DKG record "
                            f"({was and was['epoch']} -> {now and now['epoch']})", {"node": i}))
        return bad
    if not before:
        return bad
    oldref = sorted(before.items())[0][1]
    og = oldref["group"]
    for i in sorted(comp):
        ng = comp[i]["fin"]["group"]
        for f in IDENTITY:
            if ng[f] != og[f]:
                sig = "reshare-changed-identity:" + f
                bad.append((sig, f"node {i}: after the reshare to epoch {res['epoch']} the chain's {f} is {ng[f]}, before it was {og[f]}", {"node": i, "field": f}))
        if not ng["coeffs"] or ng["coeffs"][0] != og["coeffs"][0]:
            bad.append(("reshare-changed-identity:public-key", f"node {i}: distributed public key changed across the reshare", {"node": i}))
        if ng["transition"] % 1 != 0 or (ng["transition"] - ng["genesis"]) % max(ng["period"], 1) != 0:
            bad.append(("transition-not-on-round-boundary", f"node {i}: transition time {ng['transition']} is not the start of a round", {"node": i}))
    newthr = comp[sorted(comp)[0]]["fin"]["group"]["thr"]
    for o in res.get("old_partials", []):
        if not o["verifies_under_old"]:
            bad.append(("old-partial-invalid-under-old", f"harness: old share of node {o['node']} does not sign under its own group", o))
        if o["verifies_under_new"] and newthr >= 2:
            bad.append(("old-share-still-accepted", f"a partial signature made with node {o['node']}'s share of epoch {o['old_epoch']} verifies under the public "
                        f"polynomial of epoch {res['epoch']}", o))
    _ = attempted
    return bad


def oracle_handover(h):
    bad = []
    if h.get("error"):
        return bad
    target = h["target_round"]
    for o in h["trace"]:
        want = "old" if o["round"] < target else "new"
        if o["live"] != want:
            bad.append(("switch-point", f"after storing round {o['round']} the live group is the {o['live']} one; the switch belongs to the first stored round "
                        f">= {target} (transition round {h['t_round']} - 1)", o))
        if not o["info_const"]:
            bad.append(("chain-info-changed-by-setinfo", f"the vault's chain info changed at round {o['round']}", o))
        for kind in ("old_partial", "new_partial"):
            p = o.get(kind)
            if not p or p.get("outcome") == "sign-error":
                continue
            live_valid = p["valid_old"] if o["live"] == "old" else p["valid_new"]
            if p["outcome"] == "accepted" and not live_valid:
                bad.append(("partial-of-other-epoch-accepted", f"round {o['round']}, live group {o['live']}: a partial that is not valid under the live polynomial "
                            f"({kind}) was accepted", {"obs": o}))
            if o["live"] == "new" and kind == "old_partial" and p["outcome"] == "accepted" and not p["valid_new"]:
                bad.append(("old-share-still-accepted", f"round {o['round']}: after the switch a partial made with the previous epoch's share was accepted", {"obs": o}))
    if h["old_chainhash"] != h["new_chainhash"]:
        bad.append(("reshare-changed-identity:chainhash", "old and new group have different chain hashes", {}))
    return bad


def model_ops_handover(h):
    ops, exp = [], []
    if h.get("error"):
        return ops, exp
    n = len(h["trace"])
    ops.append(f"handover {h['period']} {h['genesis']} {h['transition']} {n}")
    exp.append(f"target={h['target_round']} live=" + ",".join(o["live"] for o in h["trace"]))
    for o in h["trace"]:
        for kind in ("old_partial", "new_partial"):
            p = o.get(kind)
            if not p or p.get("outcome") == "sign-error":
                continue
            valid = p["valid_old"] if o["live"] == "old" else p["valid_new"]
            ops.append(f"admission {h['self_addr']} {p['next_round']} {p['last_stored']} {p['round']} {p['index']} {1 if valid else 0} {o['share_index']} {o['live_nodes']}")
            exp.append(p["outcome"])
    return ops, exp


VGT_EXPECT = {"none": "ok", "period": "period", "genesis": "genesis-time", "seed": "seed", "id": "id", "past": "past"}


def oracle_vgt(v):
    bad = []
    if v.get("error"):
        return bad
    want = VGT_EXPECT.get(v["field"])
    if want and v["outcome"] != want:
        bad.append(("group-transition-not-refused:" + v["field"], f"validateGroupTransition answered {v['outcome']} for a new group that differs in {v['field']} "
                    f"(expected {want})", {"field": v["field"]}))
    return bad


def model_ops_vgt(v):
    if v.get("error"):
        return [], []
    return [f"vgt {chain_token(v['old'])} {chain_token(v['new'])} {v['now']}"], [v["outcome"]]


def model_ops_chain(g):
    return [f"chainpre {chain_token(g)}"], [g]


def check_chain_pre(model_line, g):
    toks = model_line.split(" scheme=")[0].split()
    got = eval_toks(toks, "sha256").hex()
    if got != g["chainhash"]:
        return f"sha256(model preimage) = {got} vs chain.NewChainInfo(group).Hash() = {g['chainhash']}"
    return None
