"""Generator of DKG histories for the `dkgsm` engine (shared by C08 and C09) and parser of its dumps."""
import re

SCH = ["pedersen-bls-chained", "pedersen-bls-unchained", "bls-unchained-g1-rfc9380", "bls-unchained-on-g1",
       "bls-bn254-unchained-on-g1"]

# participants: 0..5 good, 6 bad self-signature, 7 undecodable key, 8 = clone of 0 (same address, attacker key),
# 9 = clone of 1, 10 = clone of 3, 11 = address and self-signature of 1 with another key,
# 12 = participant 1 whose signature field holds: its signature, the framing of a leaver entry for 2, and 2's signature,
# 13 = participant 0 whose signature field holds: its signature, the framing of a remainer entry for 1, and 1's signature
GOOD = [0, 1, 2, 3, 4, 5]
CLONE = {8: 0, 9: 1, 10: 3}
ALIAS = {8: 0, 9: 1, 10: 3, 11: 1, 12: 1, 13: 0}   # index -> index of the participant whose address it carries
EMBED = {12: (1, "Leaver", 2), 13: (0, "Remainer", 1)}


def header(scheme):
    ops = ["now"]
    for i in GOOD:
        ops.append(f"mkpart {i} {8000 + i} {scheme} good")
    ops.append(f"mkpart 6 8006 {scheme} badsig")
    ops.append(f"mkpart 7 8007 {scheme} badkey")
    for c, o in CLONE.items():
        ops.append(f"mkpart {c} 0 {scheme} clone:{o}")
    ops.append(f"mkpart 11 0 {scheme} keyswap:1")
    for i, (j, role, k) in EMBED.items():
        ops.append(f"mkpart {i} 0 {scheme} embed:{j}:{role}:{k}")
    return ops


def lst(xs):
    return ",".join(str(x) for x in xs) if xs else "-"


class Terms:
    def __init__(self, **kw):
        self.__dict__.update(kw)
    def copy(self, **kw):
        t = Terms(**self.__dict__)
        t.__dict__.update(kw)
        return t
    def tok(self):
        return (f"T:{self.bid}:{self.epoch}:{self.thr}:{self.timeout}:{self.scheme}:{self.genesis}:{self.seed}:{self.catchup}:"
                f"{self.period}:{self.leader}:{lst(self.joining)}:{lst(self.remaining)}:{lst(self.leaving)}")


def pkt(sent, sender, key, signed_pkt=None, signed_terms=None, mb="default", sb="default", sigid="?"):
    """pkt <sent> <metaBeaconID> <senderIdx> <sigid> <keyIdx> <signedBeaconID> <signedPkt> <signedTerms>"""
    return f"pkt {sent} {mb} {sender} {sigid} {key} {sb} {signed_pkt or sent} {signed_terms.tok()}"


MUTATIONS = ["epoch-1", "epoch+1", "epoch+5", "thr0", "thr-high", "thr-low", "timeout-past", "scheme-unknown", "scheme-other",
             "genesis+1", "seed-change", "drop-member", "unknown-remaining", "badsig-joiner", "badkey-joiner", "leader-leaving",
             "leader-joining", "no-remaining", "beaconid", "period+1", "catchup+1", "leader-clone", "member-clone",
             "swap-join-remain", "leaver-dropped", "joiner-extra", "member-keyswap", "dup-member-drop", "dup-member-leave",
             "move-remain-to-leave", "move-leave-to-remain", "clone-joiner", "move-join-to-remain", "move-remain-to-join",
             "catchup0", "period0", "swallow-leaver", "swallow-remainer"]


def mutate(rng, t, kind, scheme):
    o = t
    if kind == "epoch-1":
        return t.copy(epoch=max(0, t.epoch - 1))
    if kind == "epoch+1":
        return t.copy(epoch=t.epoch + 1)
    if kind == "epoch+5":
        return t.copy(epoch=t.epoch + 5)
    if kind == "thr0":
        return t.copy(thr=0)
    if kind == "thr-high":
        return t.copy(thr=len(t.joining) + len(t.remaining) + 1)
    if kind == "thr-low":
        return t.copy(thr=max(0, (len(t.joining) + len(t.remaining)) // 2))
    if kind == "timeout-past":
        return t.copy(timeout="@-3600")
    if kind == "scheme-unknown":
        return t.copy(scheme="no-such-scheme")
    if kind == "scheme-other":
        return t.copy(scheme=[s for s in SCH if s != scheme][rng.below(4)])
    if kind == "genesis+1":
        return t.copy(genesis="@+101")
    if kind == "seed-change":
        return t.copy(seed="beef" if t.seed != "beef" else "f00d")
    if kind == "drop-member" and t.remaining:
        r = list(t.remaining)
        victim = r[rng.below(len(r))]
        if victim != t.leader:
            r.remove(victim)
        return t.copy(remaining=r)
    if kind == "unknown-remaining":
        return t.copy(remaining=list(t.remaining) + [5])
    if kind == "badsig-joiner":
        return t.copy(joining=list(t.joining) + [6])
    if kind == "badkey-joiner":
        return t.copy(joining=list(t.joining) + [7])
    if kind == "leader-leaving" and t.leader in t.remaining:
        return t.copy(remaining=[x for x in t.remaining if x != t.leader], leaving=list(t.leaving) + [t.leader])
    if kind == "leader-joining":
        return t.copy(joining=list(t.joining) + [t.leader]) if t.leader not in t.joining else t.copy(joining=[x for x in t.joining if x != t.leader])
    if kind == "no-remaining":
        return t.copy(remaining=[])
    if kind == "beaconid":
        return t.copy(bid="other")
    if kind == "period+1":
        return t.copy(period=t.period + 1)
    if kind == "catchup+1":
        return t.copy(catchup=t.catchup + 1)
    if kind == "leader-clone" and t.leader == 0:
        rep = lambda l: [8 if x == 0 else x for x in l]
        return t.copy(leader=8, joining=rep(t.joining), remaining=rep(t.remaining), leaving=rep(t.leaving))
    if kind == "member-clone":
        rep = lambda l: [9 if x == 1 else x for x in l]
        return t.copy(joining=rep(t.joining), remaining=rep(t.remaining), leaving=rep(t.leaving))
    if kind == "dup-member-drop" and len(t.remaining) >= 3:
        # one member named twice, another silently dropped: same count, smaller set
        r = list(t.remaining)
        victim = [x for x in r if x != t.leader][-1]
        keep = [x for x in r if x != t.leader and x != victim][0]
        return t.copy(remaining=[keep if x == victim else x for x in r])
    if kind == "dup-member-leave" and len(t.remaining) >= 3:
        r = list(t.remaining)
        victim = [x for x in r if x != t.leader][-1]
        keep = [x for x in r if x != t.leader and x != victim][0]
        return t.copy(remaining=[x for x in r if x != victim], leaving=list(t.leaving) + [keep])
    if kind == "move-remain-to-leave" and len(t.remaining) >= 2 and t.remaining[-1] != t.leader:
        # the concatenation joining ++ remaining ++ leaving is unchanged, only the role boundary moves
        return t.copy(remaining=list(t.remaining[:-1]), leaving=[t.remaining[-1]] + list(t.leaving))
    if kind == "move-leave-to-remain" and t.leaving:
        return t.copy(remaining=list(t.remaining) + [t.leaving[0]], leaving=list(t.leaving[1:]))
    if kind == "move-join-to-remain" and t.joining:
        # joining ++ remaining ++ leaving unchanged: the last joiner becomes the first remainer
        return t.copy(joining=list(t.joining[:-1]), remaining=[t.joining[-1]] + list(t.remaining))
    if kind == "move-remain-to-join" and len(t.remaining) >= 2 and t.remaining[0] != t.leader:
        return t.copy(joining=list(t.joining) + [t.remaining[0]], remaining=list(t.remaining[1:]))
    if kind == "swallow-leaver" and t.remaining and t.remaining[-1] == 1 and t.leaving and t.leaving[0] == 2:
        # same signed BYTES: the leaver entry of 2 sits inside the signature field of the last remainer
        return t.copy(remaining=list(t.remaining[:-1]) + [12], leaving=list(t.leaving[1:]))
    if kind == "swallow-remainer" and len(t.remaining) >= 2 and t.remaining[0] == 0 and t.remaining[1] == 1 and t.leader != 0:
        return t.copy(remaining=[13] + list(t.remaining[2:]))
    if kind == "catchup0":
        return t.copy(catchup=0 if t.catchup else 7)
    if kind == "period0":
        return t.copy(period=t.period + 30)
    if kind == "clone-joiner":
        # a self-signed joiner that reuses member 1's address with another key
        return t.copy(joining=list(t.joining) + [9])
    if kind == "member-keyswap":
        rep = lambda l: [11 if x == 1 else x for x in l]
        return t.copy(remaining=rep(t.remaining), leaving=rep(t.leaving))
    if kind == "swap-join-remain" and t.joining and t.remaining:
        return t.copy(joining=list(t.remaining), remaining=list(t.joining))
    if kind == "leaver-dropped":
        return t.copy(leaving=[])
    if kind == "joiner-extra":
        return t.copy(joining=list(t.joining) + [4])
    return o


def gen_history(rng, scheme, deep=False):
    """One history: a header, then several epochs seen from one SUT node, with invalid ops mixed in.
    Returns (ops, meta) where meta records the epochs' honest terms and the groups handed to `complete`."""
    ops = header(scheme)
    sut = rng.choice([0, 0, 1, 1, 2, 3])
    ops.append(f"reset default {sut} {scheme}")
    members = []          # current group (indices)
    epoch = 0
    seed = "-"
    tag = 100
    groups = {}
    n_epochs = rng.range(1, 4 if deep else 3)
    sut_in = sut in (0, 1, 2)

    def noise(t, phase):
        """an invalid / adversarial op appropriate to the moment"""
        k = rng.below(100)
        if k < 30:
            return "cmd " + rng.choice(["accept", "reject", "execute", "abort", "join -"])
        if k < 55:   # mutated proposal, correctly signed by the leader over the mutated terms
            m = mutate(rng, t, rng.choice(MUTATIONS), scheme)
            signer = 8 if m.leader == 8 else t.leader
            return pkt("proposal/" + m.tok(), m.leader, signer, signed_terms=m)
        if k < 65:   # proposal whose signature covers different terms than the ones sent
            m = mutate(rng, t, rng.choice(MUTATIONS + ["move-remain-to-leave", "move-leave-to-remain", "seed-change", "member-keyswap"]), scheme)
            return pkt("proposal/" + m.tok(), t.leader, t.leader, signed_pkt="proposal/" + t.tok(), signed_terms=t)
        if k < 75:   # right terms, wrong signing key / wrong claimed sender
            who = rng.choice([1, 2, 3, 5, 8, 9])
            claimed = rng.choice([t.leader, who])
            return pkt("proposal/" + t.tok(), claimed, who, signed_terms=t)
        if k < 82:
            who = rng.choice([0, 1, 2, 3, 5])
            signer = rng.choice([who, who, 8, 9, 5])
            return pkt(f"{rng.choice(['accept', 'reject'])}/{who}", rng.choice([who, who, t.leader]), signer, signed_terms=t)
        if k < 90:
            signer = rng.choice([t.leader, 1, 2, 8])
            return pkt(rng.choice(["execute/@+9000", "abort/none"]), rng.choice([t.leader, signer]), signer, signed_terms=t)
        if k < 94:
            return pkt("proposal/" + t.tok(), t.leader, t.leader, signed_terms=t, sigid="short")
        if k < 97:
            return rng.choice(["fail", f"complete G:{tag + 50}:@+100:abcd:{lst(t.joining + t.remaining)} 1", "complete - 1"])
        return "dump"

    for e in range(n_epochs):
        epoch += 1
        if epoch == 1:
            joining = [0, 1, 2]
            t = Terms(bid="default", epoch=1, thr=2, timeout="@+3600", scheme=scheme, genesis="@+100", seed="-",
                      catchup=5, period=30, leader=0, joining=joining, remaining=[], leaving=[])
        else:
            shape = rng.below(5)
            rem, leave, join = list(members), [], []
            if shape == 1 and 3 not in members:
                join = [3]
            elif shape == 2 and len(members) > 2:
                leave = [x for x in members if x != 0][-1:]
                rem = [x for x in members if x not in leave]
            elif shape == 3 and len(members) > 2 and 3 not in members:
                leave = [x for x in members if x != 0][-1:]
                rem = [x for x in members if x not in leave]
                join = [3]
            elif shape == 4 and 4 not in members:
                join = [4]
            n = len(rem) + len(join)
            t = Terms(bid="default", epoch=epoch, thr=rng.range(n // 2 + 1, n), timeout="@+3600", scheme=scheme,
                      genesis="@+100", seed=seed, catchup=rng.choice([5, 6]), period=30, leader=0,
                      joining=join, remaining=rem, leaving=leave)
        if epoch > 1 and 1 in t.remaining and rng.chance(1, 6):
            t = t.copy(joining=list(t.joining) + [9], thr=min(t.thr + 1, len(t.remaining) + len(t.joining) + 1))
            n2 = len(t.remaining) + len(t.joining)
            t = t.copy(thr=max(n2 // 2 + 1, min(t.thr, n2)))
        involved = sut in t.joining + t.remaining + t.leaving
        chance = 45 if deep else 30
        steps = []
        # --- proposal
        if sut == 0:
            if epoch == 1:
                steps.append(f"cmd initial O1:{t.thr}:{t.timeout}:{t.genesis}:{t.scheme}:{t.catchup}:{t.period}:{lst(t.joining)}")
            else:
                steps.append(f"cmd resharing O:{t.thr}:{t.timeout}:{t.catchup}:{lst(t.joining)}:{lst(t.remaining)}:{lst(t.leaving)}")
        else:
            steps.append(pkt("proposal/" + t.tok(), 0, 0, signed_terms=t))
        # --- responses
        if sut in t.joining and sut != 0:
            g = "-" if epoch == 1 else f"G:{tag}:@+100:{seed}:{lst(members)}"
            steps.append(f"cmd join {g}")
        elif sut in t.remaining and sut != 0:
            steps.append("cmd " + rng.choice(["accept", "accept", "reject"]))
        for other in t.remaining:
            if other not in (0, sut) and rng.chance(2, 3):
                steps.append(pkt(f"{rng.choice(['accept', 'accept', 'reject'])}/{other}", other, other, signed_terms=t))
        # --- outcome
        outcome = rng.choice(["complete", "complete", "complete", "abort", "fail", "none"])
        if outcome == "abort":
            steps.append("cmd abort" if sut == 0 else pkt("abort/none", 0, 0, signed_terms=t))
            # retried at the same epoch
            epoch -= 1
        else:
            steps.append("cmd execute" if sut == 0 else pkt("execute/@+9000", 0, 0, signed_terms=t))
            if outcome == "complete":
                tag += 1
                newm = t.remaining + t.joining
                if seed == "-":
                    seed = "abcd"
                steps.append(f"complete G:{tag}:@+100:{seed}:{lst(newm)} 1")
                groups[tag] = newm
                members = newm
            elif outcome == "fail":
                steps.append("fail")
                epoch -= 1
            else:
                epoch -= 1
        for st in steps:
            while rng.below(100) < chance:
                ops.append(noise(t, None))
            ops.append(st)
        if not involved and sut not in members:
            pass
    ops.append("dump")
    return ops, {"sut": sut, "groups": groups}


def directed_histories(scheme):
    """Every single-field mutation of a reshare proposal, against a member, a leaver and a joiner, once signed over the
    mutated terms by their leader and once sent with the signature of the unmutated terms."""
    class _R:      # deterministic choices for mutate()
        def below(self, n): return 0
        def choice(self, xs): return xs[0]
        def chance(self, a, b): return False
    hs = []
    t1 = Terms(bid="default", epoch=1, thr=2, timeout="@+3600", scheme=scheme, genesis="@+100", seed="-", catchup=5, period=30,
               leader=0, joining=[0, 1, 2], remaining=[], leaving=[])
    first = [pkt("proposal/" + t1.tok(), 0, 0, signed_terms=t1), "cmd join -", pkt("execute/@+9000", 0, 0, signed_terms=t1),
             "complete G:101:@+100:abcd:0,1,2 1"]
    shapes = {1: Terms(bid="default", epoch=2, thr=3, timeout="@+3600", scheme=scheme, genesis="@+100", seed="abcd", catchup=5,
                       period=30, leader=0, joining=[3], remaining=[0, 1, 2], leaving=[]),
              2: Terms(bid="default", epoch=2, thr=2, timeout="@+3600", scheme=scheme, genesis="@+100", seed="abcd", catchup=5,
                       period=30, leader=0, joining=[3], remaining=[0, 1], leaving=[2]),
              3: Terms(bid="default", epoch=2, thr=3, timeout="@+3600", scheme=scheme, genesis="@+100", seed="abcd", catchup=5,
                       period=30, leader=0, joining=[3], remaining=[0, 1, 2], leaving=[])}
    for sut, t2 in shapes.items():
        for kind in MUTATIONS:
            m = mutate(_R(), t2, kind, scheme)
            if m is t2:
                continue
            signer = 8 if m.leader == 8 else 0
            pre = header(scheme) + [f"reset default {sut} {scheme}"] + (first if sut in (1, 2) else [])
            hs.append(pre + [pkt("proposal/" + m.tok(), m.leader, signer, signed_terms=m), "dump"])
            hs.append(pre + [pkt("proposal/" + m.tok(), 0, 0, signed_pkt="proposal/" + t2.tok(), signed_terms=t2), "dump"])
    # a newcomer (no previous group to compare with) is shown the terms of shape 2 with the leaver swallowed into the signature
    # field of the last remainer: the signed bytes are those of the genuine terms
    tg = shapes[2]
    tsw = mutate(_R(), tg, "swallow-leaver", scheme)
    pre3 = header(scheme) + [f"reset default 3 {scheme}"]
    hs.append(pre3 + [pkt("proposal/" + tsw.tok(), 0, 0, signed_pkt="proposal/" + tg.tok(), signed_terms=tg), "dump"])
    # the same member seen through the operator's command (leader proposing mutated options)
    pre0 = header(scheme) + [f"reset default 0 {scheme}", f"cmd initial O1:2:@+3600:@+100:{scheme}:5:30:0,1,2", "cmd execute",
                             "complete G:101:@+100:abcd:0,1,2 1"]
    for kind in ("dup-member-drop", "dup-member-leave", "drop-member", "unknown-remaining", "thr0", "thr-high", "no-remaining",
                 "leader-leaving", "leader-joining", "badsig-joiner", "timeout-past", "clone-joiner", "move-remain-to-leave"):
        m = mutate(_R(), shapes[1], kind, scheme)
        hs.append(pre0 + [f"cmd resharing O:{m.thr}:{m.timeout}:{m.catchup}:{lst(m.joining)}:{lst(m.remaining)}:{lst(m.leaving)}", "dump"])
    # accept / reject for a member whose address also appears, with another key, among the joiners
    tc = shapes[1].copy(joining=[3, 9], thr=3)
    for sut in (0, 2):
        pre = header(scheme) + [f"reset default {sut} {scheme}"] + (first if sut != 0 else pre0[-3:])
        prop = [pkt("proposal/" + tc.tok(), 0, 0, signed_terms=tc)] if sut != 0 else \
            [f"cmd resharing O:{tc.thr}:{tc.timeout}:{tc.catchup}:{lst(tc.joining)}:{lst(tc.remaining)}:{lst(tc.leaving)}"]
        for kind_ in ("accept", "reject"):
            hs.append(pre + prop + [pkt(f"{kind_}/1", 1, 9, signed_terms=tc), pkt(f"{kind_}/1", 1, 1, signed_terms=tc), "dump"])
    return hs


def _reach(scheme, sut, state, E=4):
    """ops (after the header) that bring SUT to `state` at epoch E with epochs 1..E-1 completed by [0,1,2];
    returns (ops, members, seed)"""
    t1 = Terms(bid="default", epoch=1, thr=2, timeout="@+3600", scheme=scheme, genesis="@+100", seed="-", catchup=5, period=30,
               leader=0, joining=[0, 1, 2], remaining=[], leaving=[])
    ops = [pkt("proposal/" + t1.tok(), 0, 0, signed_terms=t1)]
    if sut in (1, 2):
        ops += ["cmd join -", pkt("execute/@+9000", 0, 0, signed_terms=t1), "complete G:101:@+100:abcd:0,1,2 1"]
    else:
        ops = []
    tag = 101
    for e in range(2, E):
        t = Terms(bid="default", epoch=e, thr=2, timeout="@+3600", scheme=scheme, genesis="@+100", seed="abcd", catchup=5, period=30,
                  leader=0, joining=[], remaining=[0, 1, 2], leaving=[])
        tag += 1
        if sut in (1, 2):
            ops += [pkt("proposal/" + t.tok(), 0, 0, signed_terms=t), "cmd accept", pkt("execute/@+9000", 0, 0, signed_terms=t),
                    f"complete G:{tag}:@+100:abcd:0,1,2 1"]
    if state == "Left":       # SUT (2) is sent off at epoch E
        t = Terms(bid="default", epoch=E, thr=2, timeout="@+3600", scheme=scheme, genesis="@+100", seed="abcd", catchup=5, period=30,
                  leader=0, joining=[], remaining=[0, 1], leaving=[sut])
        ops += [pkt("proposal/" + t.tok(), 0, 0, signed_terms=t), pkt("execute/@+9000", 0, 0, signed_terms=t)]
    else:
        t = Terms(bid="default", epoch=E, thr=2, timeout="@+3600", scheme=scheme, genesis="@+100", seed="abcd", catchup=5, period=30,
                  leader=0, joining=[], remaining=[0, 1, 2], leaving=[])
        ops += [pkt("proposal/" + t.tok(), 0, 0, signed_terms=t)]
        if state == "Aborted":
            ops += [pkt("abort/none", 0, 0, signed_terms=t)]
        elif state == "Failed":
            ops += ["cmd accept", pkt("execute/@+9000", 0, 0, signed_terms=t), "fail"]
        elif state == "Complete":
            ops += ["cmd accept", pkt("execute/@+9000", 0, 0, signed_terms=t), f"complete G:{tag + 1}:@+100:abcd:0,1,2 1"]
        elif state == "Executing":
            ops += ["cmd accept", pkt("execute/@+9000", 0, 0, signed_terms=t)]
        elif state == "Accepted":
            ops += ["cmd accept"]
    return ops


def epoch_sweep_histories(scheme, E=4, states=("Left", "Complete", "Aborted", "Failed", "Executing"), span=3):
    """a node that reached Left / Complete / Aborted / Failed / Executing at epoch E is shown correctly signed proposals of
    every epoch E-span..E+span naming it as joiner, as remaining member and as leaver (TimedOut has no caller in the code)"""
    hs = []
    for state in states:
        sut = 2
        pre = header(scheme) + [f"reset default {sut} {scheme}"] + _reach(scheme, sut, state, E)
        for e in range(max(1, E - span), E + span + 1):
            for role in ("joiner", "remainer", "leaver"):
                if e == 1:
                    if role != "joiner":
                        continue
                    t = Terms(bid="default", epoch=1, thr=2, timeout="@+3600", scheme=scheme, genesis="@+100", seed="-", catchup=5,
                              period=30, leader=0, joining=[0, 1, sut], remaining=[], leaving=[])
                else:
                    j, r, v = {"joiner": ([sut], [0, 1], []), "remainer": ([], [0, 1, sut], []), "leaver": ([], [0, 1], [sut])}[role]
                    t = Terms(bid="default", epoch=e, thr=2, timeout="@+3600", scheme=scheme, genesis="@+100", seed="abcd", catchup=5,
                              period=30, leader=0, joining=j, remaining=r, leaving=v)
                hs.append(pre + [pkt("proposal/" + t.tok(), 0, 0, signed_terms=t), "dump"])
    return hs


def gate_groups(scheme):
    """a gossip packet is served while an operator command sits between its read of the stored state and the rest
    (`gate cmd … | pkt …`), next to the two sequential orders of the same pair. [(name, gated, cmd-first, pkt-first)]"""
    out = []
    t1 = Terms(bid="default", epoch=1, thr=2, timeout="@+3600", scheme=scheme, genesis="@+100", seed="-", catchup=5, period=30,
               leader=0, joining=[0, 1, 2], remaining=[], leaving=[])
    t2 = Terms(bid="default", epoch=2, thr=3, timeout="@+3600", scheme=scheme, genesis="@+100", seed="abcd", catchup=5, period=30,
               leader=0, joining=[3], remaining=[0, 1, 2], leaving=[])
    first = [pkt("proposal/" + t1.tok(), 0, 0, signed_terms=t1), "cmd join -", pkt("execute/@+9000", 0, 0, signed_terms=t1),
             "complete G:101:@+100:abcd:0,1,2 1"]
    lead1 = [f"cmd initial O1:2:@+3600:@+100:{scheme}:5:30:0,1,2", "cmd execute", "complete G:101:@+100:abcd:0,1,2 1"]
    res2 = f"cmd resharing O:{t2.thr}:{t2.timeout}:{t2.catchup}:{lst(t2.joining)}:{lst(t2.remaining)}:{lst(t2.leaving)}"
    abort1 = pkt("abort/none", 0, 0, signed_terms=t1)
    abort2 = pkt("abort/none", 0, 0, signed_terms=t2)
    prop2 = pkt("proposal/" + t2.tok(), 0, 0, signed_terms=t2)
    cases = [
        ("joiner-join-vs-abort", 1, [pkt("proposal/" + t1.tok(), 0, 0, signed_terms=t1)], "cmd join -", abort1),
        ("member-accept-vs-abort", 1, first + [prop2], "cmd accept", abort2),
        ("member-reject-vs-abort", 2, first + [prop2], "cmd reject", abort2),
        ("member-accept-vs-execute", 1, first + [prop2], "cmd accept", pkt("execute/@+9000", 0, 0, signed_terms=t2)),
        ("newcomer-join-vs-abort", 3, [prop2], "cmd join G:101:@+100:abcd:0,1,2", abort2),
        ("leader-abort-vs-accept", 0, lead1 + [res2], "cmd abort", pkt("accept/1", 1, 1, signed_terms=t2)),
        ("leader-execute-vs-reject", 0, lead1 + [res2], "cmd execute", pkt("reject/2", 2, 2, signed_terms=t2)),
        ("member-accept-vs-newproposal", 1, first + [prop2, abort2], "cmd accept", prop2),
    ]
    for name, sut, pre, cmd, p in cases:
        head = header(scheme) + [f"reset default {sut} {scheme}"] + pre
        out.append((name, head + [f"gate {cmd} | {p}", "dump"], head + [cmd, p, "dump"], head + [p, cmd, "dump"]))
    return out


DUMP = re.compile(r"e=(\d+) s=(\w+) t=(\d+) to=(-?\d+) sch=(\S+) g=(-?\d+) seed=(\S+) c=(\d+) p=(\d+) L=(\S+) R=\[(.*?)\] J=\[(.*?)\] V=\[(.*?)\] A=\[(.*?)\] X=\[(.*?)\] fg=(\S+) sh=(\d)")


def parse_state(s):
    s = s.strip()
    if s == "nil":
        return None
    m = DUMP.match(s)
    if not m:
        return {"raw": s}
    g = m.groups()
    l = lambda x: [y for y in x.split(",") if y]
    return {"epoch": int(g[0]), "state": g[1], "thr": int(g[2]), "timeout": int(g[3]), "scheme": g[4], "genesis": int(g[5]),
            "seed": g[6], "catchup": int(g[7]), "period": int(g[8]), "leader": g[9], "R": l(g[10]), "J": l(g[11]), "V": l(g[12]),
            "A": l(g[13]), "X": l(g[14]), "fg": g[15], "sh": int(g[16])}


def parse_reply(r):
    parts = r.split(" | ")
    if len(parts) != 3:
        return r, None, None
    return parts[0], parse_state(parts[1]), parse_state(parts[2])
