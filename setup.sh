#!/bin/sh
# Build the framework from files on disk only (offline). Run once after a fresh restore.
set -e
cd /verif
export GOFLAGS=-mod=mod GOPROXY=off
mkdir -p .build evidence
(cd tools/go2lean && go build -o /verif/.build/go2lean .)
./.build/go2lean /repo /verif/lean
(cd lean && lake build Gen Drand vdriver DrandProofs)
python3 - <<'P'
import sys; sys.path.insert(0, "/verif")
from vlib import core
core.build_harness()
print("harness ok")
P
